(* Correspondence driver for C15: reads the raw networks written by the Go harness (map-like
   fields in arbitrary order), runs the extracted Coq model under the identity, the reversing and
   a rotating oracle, and compares (a) the Markdown blocks, (b) the save order skeleton, (c) the
   DBC order skeleton of every bus with what the implementation produced. *)
module BZ = Z
open C15_model

let rec pos_of_z (n : BZ.t) : positive =
  if BZ.equal n BZ.one then XH
  else if BZ.testbit n 0 then XI (pos_of_z (BZ.shift_right n 1))
  else XO (pos_of_z (BZ.shift_right n 1))
let coqz_of_z (n : BZ.t) : z =
  if BZ.sign n = 0 then Z0 else if BZ.sign n > 0 then Zpos (pos_of_z n) else Zneg (pos_of_z (BZ.neg n))
let cz s = coqz_of_z (BZ.of_string s)
let cn s : n = let v = BZ.of_string s in if BZ.sign v <= 0 then N0 else Npos (pos_of_z v)
let rec z_of_pos = function XH -> BZ.one | XO p -> BZ.shift_left (z_of_pos p) 1 | XI p -> BZ.succ (BZ.shift_left (z_of_pos p) 1)
let zs = function Z0 -> "0" | Zpos p -> BZ.to_string (z_of_pos p) | Zneg p -> "-" ^ BZ.to_string (z_of_pos p)
let ns = function N0 -> "0" | Npos p -> BZ.to_string (z_of_pos p)
let rec int_of_nat = function O -> 0 | S k -> 1 + int_of_nat k
let rec nat_of_int k = if k <= 0 then O else S (nat_of_int (k - 1))

let explode s = List.init (String.length s) (String.get s)
let implode l = let b = Buffer.create 16 in List.iter (Buffer.add_char b) l; Buffer.contents b
let unhex tok =
  let n = (String.length tok - 1) / 2 in
  String.init n (fun i -> Char.chr (int_of_string ("0x" ^ String.sub tok (1 + 2 * i) 2)))
let hx s = let b = Buffer.create 16 in Buffer.add_char b 'x';
  String.iter (fun c -> Buffer.add_string b (Printf.sprintf "%02x" (Char.code c))) s; Buffer.contents b
let cs tok = explode (unhex tok)
let clear_sp s = implode (clear_spaces (explode s))
let toks line = List.filter (fun s -> s <> "") (String.split_on_char ' ' line)

type state = { mutable lines : string list }
let peek st = match st.lines with [] -> None | l :: _ -> Some l
let pop st = match st.lines with [] -> failwith "eof" | l :: r -> st.lines <- r; l

(* printable owner keys for DBC attribute lines, filled while parsing *)
let owner_key : (string, string) Hashtbl.t = Hashtbl.create 64
let msg_key_tbl : (string, string) Hashtbl.t = Hashtbl.create 64   (* msg handle -> "canid.hexname" *)
let sig_name_tbl : (string, string) Hashtbl.t = Hashtbl.create 64
let node_name_tbl : (string, string) Hashtbl.t = Hashtbl.create 64

(* count attrs: "n (h name eid)*" ; returns (attrs, rest) *)
let take_attrs toks_ =
  match toks_ with
  | n :: rest ->
    let rec go k r acc = if k = 0 then (List.rev acc, r) else
        match r with
        | h :: nm :: eid :: nv :: r' ->
          let rec vals j r acc = if j = 0 then (List.rev acc, r) else
              match r with
              | i :: v :: r2 -> vals (j - 1) r2 ((cz i, cs v) :: acc)
              | _ -> failwith "attr values" in
          let vs, r2 = vals (int_of_string nv) r' [] in
          go (k - 1) r2 ({ ra_h = cn h; ra_name = cs nm; ra_eid = cs eid; ra_vals = vs } :: acc)
        | _ -> failwith "attrs" in
    go (int_of_string n) rest []
  | [] -> failwith "attr count"

let rec parse_sigs st types units enums canid : rsig list =
  match peek st with
  | None -> []
  | Some l ->
    (match toks l with
     | "std" :: h :: name :: desc :: rel :: ty :: un :: rest ->
       ignore (pop st);
       let at, _ = take_attrs rest in
       Hashtbl.replace sig_name_tbl h (hx (clear_sp (unhex name)));
       Hashtbl.replace owner_key h ("S" ^ canid ^ "." ^ hx (clear_sp (unhex name)));
       let u = if un = "-1" then None else Some (Hashtbl.find units (int_of_string un)) in
       RStd (cn h, at, cs name, cs desc, cz rel, Hashtbl.find types (int_of_string ty), u)
       :: parse_sigs st types units enums canid
     | "enm" :: h :: name :: desc :: rel :: size :: en :: rest ->
       ignore (pop st);
       let at, _ = take_attrs rest in
       Hashtbl.replace sig_name_tbl h (hx (clear_sp (unhex name)));
       Hashtbl.replace owner_key h ("S" ^ canid ^ "." ^ hx (clear_sp (unhex name)));
       REnum (cn h, at, cs name, cs desc, cz rel, cz size, Hashtbl.find enums (int_of_string en))
       :: parse_sigs st types units enums canid
     | "mux" :: h :: name :: desc :: rel :: gc :: gs :: nfx :: rest ->
       ignore (pop st);
       let rec takek k r acc = if k = 0 then (List.rev acc, r) else
           match r with x :: r' -> takek (k - 1) r' (cn x :: acc) | [] -> failwith "fixed" in
       let fx, rest = takek (int_of_string nfx) rest [] in
       let at, _ = take_attrs rest in
       Hashtbl.replace sig_name_tbl h (hx (clear_sp (unhex name)));
       Hashtbl.replace owner_key h ("S" ^ canid ^ "." ^ hx (clear_sp (unhex name)));
       let rec groups () =
         match toks (pop st) with
         | ["grp"] ->
           let g = parse_sigs st types units enums canid in
           (match toks (pop st) with ["endgrp"] -> () | _ -> failwith "endgrp expected");
           g :: groups ()
         | ["endmux"] -> []
         | _ -> failwith "grp/endmux expected" in
       let gl = groups () in
       RMux (cn h, at, cs name, cs desc, cz rel, cz gc, cz gs, fx, gl)
       :: parse_sigs st types units enums canid
     | _ -> [])

let parse_case st : rnet =
  Hashtbl.reset owner_key; Hashtbl.reset msg_key_tbl; Hashtbl.reset sig_name_tbl; Hashtbl.reset node_name_tbl;
  let types = Hashtbl.create 8 and units = Hashtbl.create 8 and enums = Hashtbl.create 8 in
  let rec defs () =
    match peek st with
    | Some l ->
      (match toks l with
       | "typ" :: id :: name :: desc :: size :: kind :: sg :: mn :: mx :: sc :: off :: _ ->
         ignore (pop st);
         Hashtbl.replace types (int_of_string id)
           { st_id = cn id; st_name = cs name; st_desc = cs desc; st_size = cz size; st_kind = cs kind;
             st_signed = (sg = "1"); st_min = cs mn; st_max = cs mx; st_scale = cs sc; st_offset = cs off };
         defs ()
       | "unt" :: id :: name :: desc :: kind :: sym :: _ ->
         ignore (pop st);
         Hashtbl.replace units (int_of_string id)
           { su_id = cn id; su_name = cs name; su_desc = cs desc; su_kind = cs kind; su_symbol = cs sym };
         defs ()
       | "enu" :: id :: name :: desc :: mx :: nv :: rest ->
         ignore (pop st);
         let rec vals k r = if k = 0 then [] else
             match r with
             | vn :: vi :: vd :: r' -> { ev_name = cs vn; ev_index = cz vi; ev_desc = cs vd } :: vals (k - 1) r'
             | _ -> failwith "enum values" in
         Hashtbl.replace enums (int_of_string id)
           { se_id = cn id; se_name = cs name; se_desc = cs desc; se_maxindex = cz mx;
             se_values = vals (int_of_string nv) rest };
         defs ()
       | _ -> ())
    | None -> () in
  defs ();
  let name, desc = match toks (pop st) with
    | ["net"; n; d] -> cs n, cs d | _ -> failwith "net expected" in
  let rec buses () =
    match peek st with
    | Some l when (match toks l with "bus" :: _ -> true | _ -> false) ->
      (match toks (pop st) with
       | "bus" :: h :: n :: d :: baud :: bh :: bn :: nops :: rest ->
         let rec ops k r acc = if k = 0 then (List.rev acc, r) else
             match r with
             | a :: b :: c :: r2 -> ops (k - 1) r2 (((cz a, cz b), cz c) :: acc)
             | _ -> failwith "ops" in
         let opl, rest = ops (int_of_string nops) rest [] in
         let at, _ = take_attrs rest in
         Hashtbl.replace owner_key h "B";
         let rec nifs () =
           match toks (pop st) with
           | "nif" :: nh :: nn :: nd :: nid :: rest ->
             let nat_, _ = take_attrs rest in
             Hashtbl.replace node_name_tbl nh (hx (clear_sp (unhex nn)));
             Hashtbl.replace owner_key nh ("N" ^ hx (clear_sp (unhex nn)));
             let rec msgs () =
               match toks (pop st) with
               | "msg" :: mh :: eid :: mn :: md :: stc :: canid :: mid :: size :: bo :: cyc :: rest ->
                 let mat, rest = take_attrs rest in
                 Hashtbl.replace msg_key_tbl mh (canid ^ "." ^ hx (clear_sp (unhex mn)));
                 Hashtbl.replace owner_key mh ("M" ^ canid);
                 let recv = match rest with
                   | nr :: r ->
                     let rec go k r = if k = 0 then [] else
                         match r with
                         | rh :: rn :: re :: num :: rid :: r' ->
                           let rat, r'' = take_attrs r' in
                           { rr_h = cn rh; rr_name = cs rn; rr_eid = cs re; rr_num = cz num; rr_id = cz rid; rr_attrs = rat } :: go (k - 1) r''
                         | _ -> failwith "recv" in
                     go (int_of_string nr) r
                   | [] -> failwith "recv count" in
                 let sigs = parse_sigs st types units enums canid in
                 (match toks (pop st) with ["endmsg"] -> () | _ -> failwith "endmsg expected");
                 { rm_h = cn mh; rm_eid = cs eid; rm_attrs = mat; rm_recv = recv; rm_name = cs mn; rm_desc = cs md;
                   rm_static = (stc = "1"); rm_canid = cz canid; rm_id = cz mid; rm_size = cz size;
                   rm_byteorder = cs bo; rm_cycle = cz cyc; rm_sigs = sigs } :: msgs ()
               | ["endnif"] -> []
               | _ -> failwith "msg/endnif expected" in
             let ms = msgs () in
             { rn_h = cn nh; rn_attrs = nat_; rn_name = cs nn; rn_desc = cs nd; rn_id = cz nid; rn_msgs = ms } :: nifs ()
           | ["endbus"] -> []
           | _ -> failwith "nif/endbus expected" in
         let nl = nifs () in
         { rb_h = cn h; rb_attrs = at; rb_builder = (if bh = "-1" then None else Some { bl_h = cn bh; bl_name = cs bn; bl_ops = opl });
           rb_name = cs n; rb_desc = cs d; rb_baud = cz baud; rb_nifs = nl } :: buses ()
       | _ -> failwith "bus line")
    | _ -> [] in
  let bl = buses () in
  (match toks (pop st) with ["endcase"] -> () | t -> failwith ("endcase expected, got " ^ String.concat " " t));
  { rt_name = name; rt_desc = desc; rt_buses = bl }


(* ------------------------------------------------------------------ Coq terms for the vm_compute cross-check *)
let q s = let b = Buffer.create 16 in Buffer.add_char b '"';
  String.iter (fun c -> if c = '"' then Buffer.add_string b "\"\"" else Buffer.add_char b c) s;
  Buffer.add_char b '"'; Buffer.contents b
let qs l = q (implode l)
let zc z = let t = zs z in if String.length t > 0 && t.[0] = '-' then "(" ^ t ^ ")%Z" else "(" ^ t ^ ")%Z"
let nc n = ns n ^ "%N"
let bc b = if b then "true" else "false"
let lst f l = "[" ^ String.concat "; " (List.map f l) ^ "]"
let opt f = function None -> "None" | Some x -> "(Some " ^ f x ^ ")"
let c_type t = Printf.sprintf "{| st_id := %s; st_name := %s; st_desc := %s; st_size := %s; st_kind := %s; st_signed := %s; st_min := %s; st_max := %s; st_scale := %s; st_offset := %s |}"
    (nc t.st_id) (qs t.st_name) (qs t.st_desc) (zc t.st_size) (qs t.st_kind) (bc t.st_signed) (qs t.st_min) (qs t.st_max) (qs t.st_scale) (qs t.st_offset)
let c_unit u = Printf.sprintf "{| su_id := %s; su_name := %s; su_desc := %s; su_kind := %s; su_symbol := %s |}"
    (nc u.su_id) (qs u.su_name) (qs u.su_desc) (qs u.su_kind) (qs u.su_symbol)
let c_enum e = Printf.sprintf "{| se_id := %s; se_name := %s; se_desc := %s; se_maxindex := %s; se_values := %s |}"
    (nc e.se_id) (qs e.se_name) (qs e.se_desc) (zc e.se_maxindex)
    (lst (fun v -> Printf.sprintf "{| ev_name := %s; ev_index := %s; ev_desc := %s |}" (qs v.ev_name) (zc v.ev_index) (qs v.ev_desc)) e.se_values)
let c_attr a = Printf.sprintf "{| ra_h := %s; ra_name := %s; ra_eid := %s; ra_vals := %s |}" (nc a.ra_h) (qs a.ra_name) (qs a.ra_eid)
    (lst (fun (i, v) -> Printf.sprintf "(%s, %s)" (zc i) (qs v)) a.ra_vals)
let rec c_rsig = function
  | RStd (h, a, n, d, r, ty, un) -> Printf.sprintf "(RStd %s %s %s %s %s %s %s)" (nc h) (lst c_attr a) (qs n) (qs d) (zc r) (c_type ty) (opt c_unit un)
  | REnum (h, a, n, d, r, sz, en) -> Printf.sprintf "(REnum %s %s %s %s %s %s %s)" (nc h) (lst c_attr a) (qs n) (qs d) (zc r) (zc sz) (c_enum en)
  | RMux (h, a, n, d, r, gc, gs, fx, groups) -> Printf.sprintf "(RMux %s %s %s %s %s %s %s %s %s)" (nc h) (lst c_attr a) (qs n) (qs d) (zc r) (zc gc) (zc gs) (lst nc fx) (lst (lst c_rsig) groups)
let c_recv r = Printf.sprintf "{| rr_h := %s; rr_name := %s; rr_eid := %s; rr_num := %s; rr_id := %s; rr_attrs := %s |}" (nc r.rr_h) (qs r.rr_name) (qs r.rr_eid) (zc r.rr_num) (zc r.rr_id) (lst c_attr r.rr_attrs)
let c_rmsg m = Printf.sprintf "{| rm_h := %s; rm_eid := %s; rm_attrs := %s; rm_recv := %s; rm_name := %s; rm_desc := %s; rm_static := %s; rm_canid := %s; rm_id := %s; rm_size := %s; rm_byteorder := %s; rm_cycle := %s; rm_sigs := %s |}"
    (nc m.rm_h) (qs m.rm_eid) (lst c_attr m.rm_attrs) (lst c_recv m.rm_recv) (qs m.rm_name) (qs m.rm_desc) (bc m.rm_static) (zc m.rm_canid) (zc m.rm_id) (zc m.rm_size) (qs m.rm_byteorder) (zc m.rm_cycle) (lst c_rsig m.rm_sigs)
let c_rnet r = Printf.sprintf "{| rt_name := %s; rt_desc := %s; rt_buses := %s |}" (qs r.rt_name) (qs r.rt_desc)
    (lst (fun b -> Printf.sprintf "{| rb_h := %s; rb_attrs := %s; rb_builder := %s; rb_name := %s; rb_desc := %s; rb_baud := %s; rb_nifs := %s |}"
             (nc b.rb_h) (lst c_attr b.rb_attrs)
             (opt (fun x -> Printf.sprintf "{| bl_h := %s; bl_name := %s; bl_ops := %s |}" (nc x.bl_h) (qs x.bl_name)
                      (lst (fun ((a, b), c) -> Printf.sprintf "(%s, %s, %s)" (zc a) (zc b) (zc c)) x.bl_ops)) b.rb_builder)
             (qs b.rb_name) (qs b.rb_desc) (zc b.rb_baud)
             (lst (fun x -> Printf.sprintf "{| rn_h := %s; rn_attrs := %s; rn_name := %s; rn_desc := %s; rn_id := %s; rn_msgs := %s |}"
                      (nc x.rn_h) (lst c_attr x.rn_attrs) (qs x.rn_name) (qs x.rn_desc) (zc x.rn_id) (lst c_rmsg x.rn_msgs)) b.rb_nifs)) r.rt_buses)
let c_block_of_obs line = match toks line with
  | ["H"; n; t] -> Printf.sprintf "H %s %s" n (q (unhex t))
  | ["P"; t] -> "Para " ^ q (unhex t)
  | ["B"; t] -> "Bullet " ^ q (unhex t)
  | ["R"] -> "Rule"
  | ["L"] -> "LF"
  | "T" :: nc_ :: rest ->
    let rec take k l acc = if k = 0 then (List.rev acc, l) else match l with x :: r -> take (k - 1) r (x :: acc) | [] -> failwith "T" in
    let hdr, rest = take (int_of_string nc_) rest [] in
    let rec rows k l = if k = 0 then [] else
        match l with
        | w :: r -> let cells, r' = take (int_of_string w) r [] in cells :: rows (k - 1) r'
        | [] -> failwith "T rows" in
    let rws = match rest with nr :: r -> rows (int_of_string nr) r | [] -> [] in
    Printf.sprintf "Table %s %s" (lst (fun c -> q (unhex c)) hdr) (lst (lst (fun c -> q (unhex c))) rws)
  | _ -> failwith "block"
let coq_buf = Buffer.create 4096
let coq_checks = ref []
let coq_budget = ref 0

let show_block = function
  | H (n, t) -> Printf.sprintf "H %d %s" (int_of_nat n) (hx (implode t))
  | Para t -> "P " ^ hx (implode t)
  | Bullet t -> "B " ^ hx (implode t)
  | Rule -> "R"
  | LF -> "L"
  | Table (h, rows) ->
    let b = Buffer.create 64 in
    Buffer.add_string b (Printf.sprintf "T %d" (List.length h));
    List.iter (fun c -> Buffer.add_string b (" " ^ hx (implode c))) h;
    Buffer.add_string b (Printf.sprintf " %d" (List.length rows));
    List.iter (fun r ->
        Buffer.add_string b (Printf.sprintf " %d" (List.length r));
        List.iter (fun c -> Buffer.add_string b (" " ^ hx (implode c))) r) rows;
    Buffer.contents b

let show_save = function
  | EBus h -> "B" ^ ns h | ENif h -> "N" ^ ns h | EMsg h -> "M" ^ ns h | ESig h -> "S" ^ ns h
  | EAsg a -> "A" ^ ns a.ra_h | ERecv (h, k) -> "R" ^ ns h ^ ":" ^ zs k
  | ERef (t, h) -> Printf.sprintf "F%d:%s" (int_of_nat t) (ns h) | EVal i -> "V" ^ zs i
  | EOp (k, f, l) -> Printf.sprintf "O%s:%s:%s" (zs k) (zs f) (zs l)
  | EPay (h, r) -> "P" ^ ns h ^ ":" ^ zs r | EFixed h -> "X" ^ ns h | EGroup -> "G"
  | EAttrVal v -> "E" ^ hx (implode v)
  | _ -> "?"

let find tbl k = try Hashtbl.find tbl k with Not_found -> "?" ^ k

(* the DBC skeleton as the four projections the text offers *)
let show_dbc (evs : ev list) : string =
  let us l = String.map (fun c -> if c = ' ' then '_' else c) (implode l) in
  let nodes = List.filter_map (function ENif h -> Some ("N" ^ find node_name_tbl (ns h)) | _ -> None) evs in
  let labs = List.filter_map (function ELab l -> Some ("L" ^ hx (us l)) | _ -> None) evs in
  let msgs = List.filter_map (function
      | EMsg h -> Some ("M" ^ find msg_key_tbl (ns h))
      | ESig h -> Some ("S" ^ find sig_name_tbl (ns h))
      | ERecvN n -> Some ("r" ^ hx (implode n))
      | _ -> None) evs in
  let defs = List.filter_map (function
      | EDef (k, nm, vals) -> Some (Printf.sprintf "D%d:%s:%s" (int_of_nat k) (hx (implode nm))
                                      (String.concat "" (List.map (fun v -> hx (implode v) ^ ",") vals)))
      | _ -> None) evs in
  let asg = List.filter_map (function
      | EAsgN (_, o, a) -> Some ("a" ^ find owner_key (ns o) ^ ":" ^ hx (implode (clear_spaces a.ra_name)))
      | _ -> None) evs in
  let coms = List.filter_map (function EComment (_, o) -> Some ("C" ^ find owner_key (ns o)) | _ -> None) evs in
  let encs = List.filter_map (function
      | EValEnc (h, idx) -> Some ("V" ^ find owner_key (ns h) ^ ":" ^ String.concat "" (List.map (fun i -> zs i ^ ",") idx))
      | _ -> None) evs in
  let exts = List.filter_map (function
      | EExt (muxor, muxed, rs) -> Some ("X" ^ hx (implode muxor) ^ "." ^ hx (implode muxed) ^ ":"
                                        ^ String.concat "," (List.map (fun (f, t) -> zs f ^ "-" ^ zs t) rs))
      | _ -> None) evs in
  String.concat " " (nodes @ ["|"] @ labs @ ["|"] @ msgs @ ["|"] @ defs @ ["|"] @ asg @ ["|"] @ coms @ ["|"] @ encs @ ["|"] @ exts)

(* a paragraph with line breaks is rendered as one line per text line *)
let show_lines b = match b with
  | Para t -> List.map (fun l -> "P " ^ hx l) (String.split_on_char '\n' (implode t))
  | _ -> [show_block b]

let readable line =
  String.concat " " (List.map (fun t -> if String.length t > 0 && t.[0] = 'x' && String.length t mod 2 = 1
                                 then (try "\"" ^ unhex t ^ "\"" with _ -> t) else t) (toks line))

let oracles : (string * oracle) list =
  [ "identity", (fun _ -> Obj.magic o_id); "reverse", (fun _ -> Obj.magic o_rev);
    "rotate", (fun _ -> Obj.magic (o_rot (nat_of_int 1))) ]


(* ------------------------------------------------------------------ the mutator tie *)
(* <out>.mut: triples (raw dump before, "mut <accepted> <mutator> <handle> <args>", raw dump after)
   taken by the history leg around single changes.  For an ACCEPTED change the model-level mutator
   applied to the dump before must give the dump after (both walked under o_id, i.e. up to the order
   of the map-like lists); for a REFUSED change the dump after must equal the dump before. *)
let scalars (r : rnet) : string list =
  List.concat_map (fun b ->
      ("bus " ^ ns b.rb_h ^ " name=" ^ implode b.rb_name) ::
      List.concat_map (fun x ->
          ("nif " ^ ns x.rn_h ^ " id=" ^ zs x.rn_id ^ " name=" ^ implode x.rn_name) ::
          List.concat_map (fun m ->
              (Printf.sprintf "msg %s name=%s id=%s canid=%s static=%b" (ns m.rm_h) (implode m.rm_name) (zs m.rm_id) (zs m.rm_canid) m.rm_static) ::
              List.map (fun rc -> Printf.sprintf "recv %s of msg %s node-id=%s name=%s" (ns rc.rr_h) (ns m.rm_h) (zs rc.rr_id) (implode rc.rr_name)) m.rm_recv)
            x.rn_msgs) b.rb_nifs) r.rt_buses
let rec first_diff a b = match a, b with
  | x :: a', y :: b' -> if x = y then first_diff a' b' else Printf.sprintf "model: %s / impl: %s" x y
  | x :: _, [] -> "model: " ^ x ^ " / impl: <none>"
  | [], y :: _ -> "model: <none> / impl: " ^ y
  | [], [] -> "a field outside the scalar summary (attributes, signals, descriptions)"

let run_mut path =
  let ic = open_in path in
  let all = ref [] in
  (try while true do all := input_line ic :: !all done with End_of_file -> ());
  let st = { lines = List.rev !all } in
  let counts = Hashtbl.create 8 and moved = Hashtbl.create 8 in
  let bump t k = Hashtbl.replace t k (1 + try Hashtbl.find t k with Not_found -> 0) in
  let n = ref 0 and bad = ref 0 and end_seen = ref false in
  let o : oracle = fun _ -> Obj.magic o_id in
  let idf (r : rnet) = r in
  let expect_case () = match toks (pop st) with ["case"; _] -> () | _ -> failwith "case expected in the mutator file" in
  (try
     while st.lines <> [] do
       match toks (pop st) with
       | ["ENDMUT"; k] ->
         if st.lines <> [] then failwith "text after the ENDMUT marker";
         if int_of_string k <> !n then failwith (Printf.sprintf "ENDMUT marker says %s triples, %d read" k !n);
         end_seen := true
       | "mut" :: acc :: name :: args ->
         expect_case (); let before = parse_case st in
         expect_case (); let after = parse_case st in
         incr n;
         let accepted = (acc = "1") in
         let model, mask = match name, args with
           | "mut_bus_name", [h; nm] -> mut_bus_name (cn h) (cs nm) before, idf
           | "mut_node_id", [h; i] -> mut_node_id_full (cn h) (cz i) before, mask_node_canids (cn h)
           | "mut_msg_name", [h; nm] -> mut_msg_name (cn h) (cs nm) before, idf
           | "mut_msg_id", [h; i; c] -> mut_msg_id (cn h) (cz i) (cz c) before, idf
           | "mut_msg_static", [h; i] -> mut_msg_static (cn h) (cz i) before, idf
           | _ -> failwith ("unknown mutator line: " ^ name) in
         let expected, mask = if accepted then model, mask else before, idf in
         bump counts (name ^ (if accepted then "" else ":refused"));
         let we = walk o (mask expected) and wa = walk o (mask after) in
         if accepted && walk o before <> walk o after then bump moved name;
         if we <> wa then begin
           incr bad;
           if !bad <= 8 then
             Printf.printf "MUTMISMATCH %s triple %d (%s): %s %s: %s\n" name !n (if accepted then "accepted" else "refused")
               name (String.concat " " (List.map readable args)) (first_diff (scalars we) (scalars wa))
         end
       | t -> failwith ("mut expected: " ^ String.concat " " t)
     done
   with Failure m -> Printf.printf "DRIVER-ERROR %s\n" m; incr bad);
  if not !end_seen then begin Printf.printf "DRIVER-ERROR the mutator file has no ENDMUT marker (truncated?)\n"; incr bad end;
  Hashtbl.iter (fun k v -> Printf.printf "MUTCMP %s %d\n" k v) counts;
  Hashtbl.iter (fun k v -> Printf.printf "MUTMOVED %s %d\n" k v) moved;
  Printf.printf "MUTTRIPLES %d MUTBAD %d\n" !n !bad;
  exit 0

let () = if Array.length Sys.argv > 2 && Sys.argv.(1) = "--mut" then run_mut Sys.argv.(2)

let () =
  let ic = open_in Sys.argv.(1) in
  let verbose = Array.length Sys.argv > 2 && Sys.argv.(2) = "-v" in
  let coq_out = if Array.length Sys.argv > 4 && Sys.argv.(2) = "--coq" then (coq_budget := int_of_string Sys.argv.(4); Some Sys.argv.(3)) else None in
  let all = ref [] in
  (try while true do all := input_line ic :: !all done with End_of_file -> ());
  let st = { lines = List.rev !all } in
  let end_seen = ref false in
  let cases = ref 0 and bad = ref 0 and wf_false = ref 0 in
  let kinds = Hashtbl.create 8 in
  (try
     while st.lines <> [] do
       let idx = match toks (pop st) with
         | ["case"; i] -> i
         | ["END"; k] ->
           if st.lines <> [] then failwith "text after the END marker";
           if int_of_string k <> !cases then failwith (Printf.sprintf "END marker says %s cases, %d read" k !cases);
           end_seen := true; raise Exit
         | t -> failwith ("case expected: " ^ String.concat " " t) in
       let net = parse_case st in
       let obs_err = match toks (pop st) with ["obs"; e] -> e = "1" | _ -> failwith "obs expected" in
       let rec obs () = match pop st with "endobs" -> [] | l -> l :: obs () in
       let observed = obs () in
       let strip p l = let n = String.length p in
         if String.length l >= n && String.sub l 0 n = p then String.trim (String.sub l n (String.length l - n)) else failwith (p ^ " expected") in
       let obs_save = String.concat " " (toks (strip "obssave" (pop st))) in
       let rec dbcs () = match peek st with
         | Some l when String.length l >= 6 && String.sub l 0 6 = "obsdbc" -> ignore (pop st); String.concat " " (toks (strip "obsdbc" l)) :: dbcs ()
         | _ -> [] in
       let obs_dbc = dbcs () in
       (match pop st with "endobsall" -> () | _ -> failwith "endobsall expected");
       incr cases;
       if !coq_budget > 0 && not obs_err && List.length observed < 300 then begin
         decr coq_budget;
         let o : oracle = fun _ -> Obj.magic o_id in
         Buffer.add_string coq_buf (Printf.sprintf "Definition r_%s : rnet := %s.\nDefinition o_%s : list block := %s.\n" idx (c_rnet net) idx (lst c_block_of_obs observed));
         coq_checks := Printf.sprintf "check_case r_%s o_%s %d %s" idx idx (List.length (save_raw o net))
             (lst (fun l -> string_of_int (List.length l)) (dbc_raw o net)) :: !coq_checks
       end;
       if not (wf_netb net) then begin
         incr bad; incr wf_false;
         Printf.printf "MISMATCH case %s [wf]: wf_netb is false on the raw network dumped from the implementation (hypothesis of the C15 theorems)\n" idx
       end;
       let report kind what =
         incr bad;
         Hashtbl.replace kinds kind (1 + try Hashtbl.find kinds kind with Not_found -> 0);
         if !bad <= 12 then Printf.printf "MISMATCH case %s [%s]: %s\n" idx kind what in
       List.iter (fun (oname, o) ->
           (* Markdown *)
           let model = md_raw o net in
           let model_lines = List.concat_map show_lines (blocks (to_net (walk o net))) in
           let model_err = (match model with Ok _ -> false | Err -> true) in
           if model_err <> obs_err then report "md" (Printf.sprintf "oracle %s: error result differs (impl %b, model %b)" oname obs_err model_err)
           else if observed <> model_lines then begin
             let rec first i a b = match a, b with
               | x :: a', y :: b' -> if x = y then first (i + 1) a' b' else
                   Printf.sprintf "block %d impl: %s / model: %s" i (readable x) (readable y)
               | x :: _, [] -> Printf.sprintf "block %d impl: %s / model: <none>" i (readable x)
               | [], y :: _ -> Printf.sprintf "block %d impl: <none> / model: %s" i (readable y)
               | [], [] -> "" in
             report "md" (Printf.sprintf "oracle %s: blocks differ: %s" oname (first 0 observed model_lines))
           end;
           (* save order *)
           let ms = String.concat " " (List.map show_save (save_raw o net)) in
           if ms <> obs_save then report "save" (Printf.sprintf "oracle %s: save order differs\n  impl : %s\n  model: %s" oname obs_save ms);
           (* DBC order *)
           let md_ = List.map show_dbc (dbc_raw o net) in
           if md_ <> obs_dbc then begin
             let rec first i a b = match a, b with
               | x :: a', y :: b' -> if x = y then first (i + 1) a' b' else Printf.sprintf "bus %d\n  impl : %s\n  model: %s" i (readable x) (readable y)
               | _ -> Printf.sprintf "bus count %d vs %d" (List.length obs_dbc) (List.length md_) in
             report "dbc" (Printf.sprintf "oracle %s: DBC order differs: %s" oname (first 0 obs_dbc md_))
           end;
           if verbose then begin
             Printf.printf "  [%s] save: %s\n" oname ms;
             List.iter (fun l -> Printf.printf "  [%s] dbc: %s\n" oname (readable l)) md_
           end) oracles
     done
   with Failure m -> Printf.printf "DRIVER-ERROR %s\n" m; incr bad
      | Exit -> ());
  if not !end_seen then begin Printf.printf "DRIVER-ERROR the case file has no END marker (truncated?)\n"; incr bad end;
  Hashtbl.iter (fun k v -> Printf.printf "KIND %s %d\n" k v) kinds;
  (match coq_out with
   | Some f ->
     let oc = open_out f in
     output_string oc "From Coq Require Import ZArith List String.\nFrom Acme.C16 Require Import Model.\nFrom Acme.C15 Require Import Model ModelChk.\nImport ListNotations.\nLocal Open Scope string_scope.\n";
     Buffer.output_buffer oc coq_buf;
     output_string oc (Printf.sprintf "Definition M := Eval vm_compute in [%s].\nPrint M.\n" (String.concat "; " (List.rev !coq_checks)));
     close_out oc
   | None -> ());
  Printf.printf "WFCHECKED %d WFFALSE %d\n" !cases !wf_false;
  Printf.printf "CASES %d MISMATCHES %d\n" !cases !bad
