package main

import (
	"bytes"
	"fmt"
	"time"

	a "github.com/squadracorsepolito/acmelib"
	pb "github.com/squadracorsepolito/acmelib/proto/gen/go/acmelib/v1"
	"google.golang.org/protobuf/proto"
	"google.golang.org/protobuf/types/known/timestamppb"
)

// G  boundary values injected at the proto level: the save of a generated network is rewritten
// with boundary creation times (zero time 0001-01-01, the epoch, 9999-12-31, absent) and empty
// descriptions, loaded, and the loaded - unchanged - network is saved and exported twice: the two
// results must be byte-identical (a save must not depend on the clock, a counter, ...).

func forEachEntity(n *pb.Network, f func(e *pb.Entity)) {
	var sig func(s *pb.Signal)
	sig = func(s *pb.Signal) {
		f(s.Entity)
		if v, ok := s.Signal.(*pb.Signal_Multiplexer); ok {
			for _, c := range v.Multiplexer.Signals {
				sig(c)
			}
		}
	}
	f(n.Entity)
	for _, b := range n.Buses {
		f(b.Entity)
		for _, ni := range b.NodeInterfaces {
			for _, m := range ni.Messages {
				f(m.Entity)
				for _, s := range m.Signals {
					sig(s)
				}
			}
		}
	}
	for _, x := range n.CanidBuilders {
		f(x.Entity)
	}
	for _, x := range n.Nodes {
		f(x.Entity)
	}
	for _, x := range n.SignalTypes {
		f(x.Entity)
	}
	for _, x := range n.SignalUnits {
		f(x.Entity)
	}
	for _, x := range n.SignalEnums {
		f(x.Entity)
		for _, v := range x.Values {
			f(v.Entity)
		}
	}
	for _, x := range n.Attributes {
		f(x.Entity)
	}
}

var boundaryTimes = []*timestamppb.Timestamp{
	timestamppb.New(time.Time{}),                                   // 0001-01-01T00:00:00Z: time.Time's zero value
	timestamppb.New(time.Unix(0, 0)),                               // the epoch
	timestamppb.New(time.Date(9999, 12, 31, 23, 59, 59, 999999999, time.UTC)), // the largest valid timestamp
	nil, // absent
}

// checkBoundary returns (signature, detail, comparisons, loads that failed).
func checkBoundary(wire []byte, r *rng) (string, string, int, int) {
	n, failed := 0, 0
	for variant := 0; variant < len(boundaryTimes)+1; variant++ {
		var net pb.Network
		if err := proto.Unmarshal(wire, &net); err != nil {
			return "", "", n, failed
		}
		k := 0
		forEachEntity(&net, func(e *pb.Entity) {
			if e == nil {
				return
			}
			k++
			if variant < len(boundaryTimes) {
				if variant == 0 || r.chance(60) { // variant 0: every entity carries the zero time
					e.CreateTime = boundaryTimes[variant]
				}
			} else {
				e.CreateTime = boundaryTimes[(k+variant)%len(boundaryTimes)]
				if r.chance(50) {
					e.Desc = ""
				}
			}
		})
		data, err := proto.Marshal(&net)
		if err != nil {
			continue
		}
		m, err := load(data)
		if err != nil || m == nil {
			failed++
			continue
		}
		o1 := export(m)
		o2 := export(m)
		n++
		if s, d := diff(o1, o2, false); s != "" {
			what := []string{"zero creation times", "epoch creation times", "maximal creation times", "absent creation times", "mixed boundary creation times / empty descriptions"}[variant]
			return "boundary-resave-" + s, fmt.Sprintf("a network loaded from a save with %s is saved / exported differently twice in a row: %s", what, d), n, failed
		}
		var w1, w2 bytes.Buffer
		e1 := a.SaveNetwork(m, a.SaveEncodingWire, &w1, nil, nil)
		e2 := a.SaveNetwork(m, a.SaveEncodingWire, &w2, nil, nil)
		n++
		if (e1 == nil) != (e2 == nil) || !bytes.Equal(w1.Bytes(), w2.Bytes()) {
			return "boundary-resave-wire", "two consecutive saves of the unchanged loaded network differ", n, failed
		}
	}
	return "", "", n, failed
}
