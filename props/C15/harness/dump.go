package main

import "bufio"

// writeCase writes the model input and the observed orders (filled in below).
func writeCase(w *bufio.Writer, i int, sp *Spec, b *Built, o outputs) {}
