package main

import (
	"bufio"
	"fmt"
	"regexp"
	"strings"

	a "github.com/squadracorsepolito/acmelib"
	pb "github.com/squadracorsepolito/acmelib/proto/gen/go/acmelib/v1"
	"google.golang.org/protobuf/proto"
)

const (
	hBus     = 1000000
	hNode    = 2000000
	hMsg     = 3000000
	hSig     = 4000000
	hAttr    = 5000000
	hBuilder = 6000000
)

func clearSp(s string) string { return strings.ReplaceAll(strings.TrimSpace(s), " ", "_") }

type caseDump struct {
	w     *strings.Builder
	sp    *Spec
	b     *Built
	sigH  map[*SigSpec]int
	msgH  map[*MsgSpec]int
	byEid map[string]int // entity id -> handle (all kinds)
}

func (d *caseDump) attrs(as []AssignSpec) string {
	var sb strings.Builder
	fmt.Fprintf(&sb, "%d", len(as))
	for _, x := range as {
		at := d.b.Attrs[x.Attr]
		fmt.Fprintf(&sb, " %d %s %s", hAttr+x.Attr, hx(at.Name()), hx(at.EntityID().String()))
		// the value map of an enum attribute, in an order unrelated to the indexes
		var vals []string
		if ea, err := at.ToEnum(); err == nil {
			vals = ea.Values()
		}
		fmt.Fprintf(&sb, " %d", len(vals))
		for k := len(vals) - 1; k >= 0; k-- {
			fmt.Fprintf(&sb, " %d %s", k, hx(vals[k]))
		}
	}
	return sb.String()
}

func (d *caseDump) numberSigs(s *SigSpec) {
	d.sigH[s] = hSig + len(d.sigH)
	if sig, ok := d.b.SigOf[s]; ok {
		d.byEid[sig.EntityID().String()] = d.sigH[s]
	}
	for _, c := range s.Children {
		d.numberSigs(c.Sig)
	}
}

func (d *caseDump) sigs(sigs []a.Signal, tIdx map[*a.SignalType]int, uIdx map[*a.SignalUnit]int, eIdx map[*a.SignalEnum]int) {
	for _, s := range sigs {
		spec := d.b.SpecOf[s.EntityID()]
		h := d.sigH[spec]
		switch s.Kind() {
		case a.SignalKindStandard:
			ss, _ := s.ToStandard()
			u := -1
			if ss.Unit() != nil {
				u = uIdx[ss.Unit()]
			}
			fmt.Fprintf(d.w, "std %d %s %s %d %d %d %s\n", h, hx(s.Name()), hx(s.Desc()), s.GetRelativeStartPos(), tIdx[ss.Type()], u, d.attrs(spec.Attrs))
		case a.SignalKindEnum:
			es, _ := s.ToEnum()
			fmt.Fprintf(d.w, "enm %d %s %s %d %d %d %s\n", h, hx(s.Name()), hx(s.Desc()), s.GetRelativeStartPos(), s.GetSize(), eIdx[es.Enum()], d.attrs(spec.Attrs))
		case a.SignalKindMultiplexer:
			mx, _ := s.ToMultiplexer()
			var fixed []string
			for _, c := range spec.Children {
				if len(c.Groups) == 0 {
					fixed = append(fixed, fmt.Sprint(d.sigH[c.Sig]))
				}
			}
			fmt.Fprintf(d.w, "mux %d %s %s %d %d %d %d %s %s\n", h, hx(s.Name()), hx(s.Desc()), s.GetRelativeStartPos(), mx.GroupCount(), mx.GroupSize(),
				len(fixed), strings.Join(append(fixed, ""), " "), d.attrs(spec.Attrs))
			for _, g := range mx.GetSignalGroups() {
				fmt.Fprintf(d.w, "grp\n")
				d.sigs(g, tIdx, uIdx, eIdx)
				fmt.Fprintf(d.w, "endgrp\n")
			}
			fmt.Fprintf(d.w, "endmux\n")
		}
	}
}

// writeCase writes the raw model input (map-like fields in SPECIFICATION order, i.e. arbitrary
// with respect to every sort key) and the observed Markdown blocks / save order / DBC order.
func writeCase(w *bufio.Writer, idx int, sp *Spec, b *Built, o outputs) {
	d := dumpRaw(idx, sp, b)
	finishCase(w, d, b, o)
}

// rawDump: only the raw network ("case" .. "endcase"), for the (before, change, after) triples
func rawDump(idx int, sp *Spec, b *Built) string { return dumpRaw(idx, sp, b).w.String() }

func dumpRaw(idx int, sp *Spec, b *Built) *caseDump {
	d := &caseDump{w: &strings.Builder{}, sp: sp, b: b, sigH: map[*SigSpec]int{}, msgH: map[*MsgSpec]int{}, byEid: map[string]int{}}
	g := func(f float64) string { return hx(fmt.Sprintf("%g", f)) }
	tIdx, uIdx, eIdx := map[*a.SignalType]int{}, map[*a.SignalUnit]int{}, map[*a.SignalEnum]int{}
	fmt.Fprintf(d.w, "case %d\n", idx)
	for i, t := range b.Types {
		tIdx[t] = i
		d.byEid[t.EntityID().String()] = i
		sg := 0
		if t.Signed() {
			sg = 1
		}
		fmt.Fprintf(d.w, "typ %d %s %s %d %s %d %s %s %s %s\n", i, hx(t.Name()), hx(t.Desc()), t.Size(), hx(t.Kind().String()), sg,
			g(t.Min()), g(t.Max()), g(t.Scale()), g(t.Offset()))
	}
	for i, u := range b.Units {
		uIdx[u] = i
		d.byEid[u.EntityID().String()] = i
		fmt.Fprintf(d.w, "unt %d %s %s %s %s\n", i, hx(u.Name()), hx(u.Desc()), hx(u.Kind().String()), hx(u.Symbol()))
	}
	for i, e := range b.Enums {
		eIdx[e] = i
		d.byEid[e.EntityID().String()] = i
		byIndex := map[int]*a.SignalEnumValue{}
		for _, v := range e.Values() {
			byIndex[v.Index()] = v
		}
		fmt.Fprintf(d.w, "enu %d %s %s %d %d", i, hx(e.Name()), hx(e.Desc()), e.MaxIndex(), len(sp.Enums[i].Vals))
		for _, vs := range sp.Enums[i].Vals { // specification order
			v := byIndex[vs.Index]
			fmt.Fprintf(d.w, " %s %d %s", hx(v.Name()), v.Index(), hx(v.Desc()))
		}
		fmt.Fprintf(d.w, "\n")
	}
	for i, at := range b.Attrs {
		d.byEid[at.EntityID().String()] = hAttr + i
	}
	for i, cb := range b.Builders {
		d.byEid[cb.EntityID().String()] = hBuilder + i
	}
	for i, n := range b.Nodes {
		d.byEid[n.EntityID().String()] = hNode + i
	}
	for bi, bs := range sp.Buses {
		d.byEid[b.Buses[bi].EntityID().String()] = hBus + bi
		if bs.Builder < 0 {
			d.byEid[b.Buses[bi].CANIDBuilder().EntityID().String()] = hBuilder + 500 + bi
		}
		for _, f := range bs.Ifs {
			for _, ms := range f.Msgs {
				d.msgH[ms] = hMsg + len(d.msgH)
				d.byEid[b.MsgOf[ms].EntityID().String()] = d.msgH[ms]
				for _, s := range ms.Sigs {
					d.numberSigs(s)
				}
			}
		}
	}
	fmt.Fprintf(d.w, "net %s %s\n", hx(b.Net.Name()), hx(b.Net.Desc()))
	for bi, bs := range sp.Buses {
		bus := b.Buses[bi]
		// every bus references a builder in the save (44b3abb: the default one too)
		bh, bn := hBuilder+500+bi, bus.CANIDBuilder().Name()
		if bs.Builder >= 0 {
			bh = hBuilder + bs.Builder
		}
		ops := bus.CANIDBuilder().Operations()
		opsTok := fmt.Sprint(len(ops))
		for _, op := range ops {
			opsTok += fmt.Sprintf(" %d %d %d", int(op.Kind()), op.From(), op.Len())
		}
		fmt.Fprintf(d.w, "bus %d %s %s %d %d %s %s %s\n", hBus+bi, hx(bus.Name()), hx(bus.Desc()), bus.Baudrate(), bh, hx(bn), opsTok, d.attrs(bs.Attrs))
		for _, f := range bs.Ifs {
			n := b.Nodes[f.Ref.Node]
			fmt.Fprintf(d.w, "nif %d %s %s %d %s\n", hNode+f.Ref.Node, hx(n.Name()), hx(n.Desc()), uint32(n.ID()), d.attrs(sp.Nodes[f.Ref.Node].Attrs))
			for _, ms := range f.Msgs {
				m := b.MsgOf[ms]
				st := 0
				if m.HasStaticCANID() {
					st = 1
				}
				fmt.Fprintf(d.w, "msg %d %s %s %s %d %d %d %d %s %d %s %d", d.msgH[ms], hx(m.EntityID().String()), hx(m.Name()), hx(m.Desc()), st,
					uint32(m.GetCANID()), uint32(m.ID()), m.SizeByte(), hx(m.ByteOrder().String()), m.CycleTime(), d.attrs(ms.Attrs), len(ms.Recv))
				for _, rf := range ms.Recv {
					rn := b.Nodes[rf.Node]
					fmt.Fprintf(d.w, " %d %s %s %d %d %s", hNode+rf.Node, hx(rn.Name()), hx(rn.EntityID().String()), rf.Num, uint32(rn.ID()), d.attrs(sp.Nodes[rf.Node].Attrs))
				}
				fmt.Fprintf(d.w, "\n")
				d.sigs(m.Signals(), tIdx, uIdx, eIdx)
				fmt.Fprintf(d.w, "endmsg\n")
			}
			fmt.Fprintf(d.w, "endnif\n")
		}
		fmt.Fprintf(d.w, "endbus\n")
	}
	fmt.Fprintf(d.w, "endcase\n")
	return d
}

func finishCase(w *bufio.Writer, d *caseDump, b *Built, o outputs) {
	// observed: Markdown
	e := 0
	if strings.HasPrefix(o.err, "markdown:") {
		e = 1
	}
	fmt.Fprintf(d.w, "obs %d\n%sendobs\n", e, dumpBlocks(parseMarkdown(o.md)))
	// observed: save order
	fmt.Fprintf(d.w, "obssave %s\n", strings.Join(d.saveEvents(o.wire), " "))
	// observed: DBC order, one line per bus in Buses() order
	attrNames := map[string]bool{}
	for _, at := range b.Attrs {
		attrNames[clearSp(at.Name())] = true
	}
	for _, text := range o.dbc {
		fmt.Fprintf(d.w, "obsdbc %s\n", strings.Join(dbcEvents(text, attrNames), " "))
	}
	fmt.Fprintf(d.w, "endobsall\n")
	w.WriteString(d.w.String())
}

func (d *caseDump) saveEvents(wire []byte) []string {
	var n pb.Network
	if err := proto.Unmarshal(wire, &n); err != nil {
		return []string{"undecodable"}
	}
	var ev []string
	h := func(id string) int {
		if v, ok := d.byEid[id]; ok {
			return v
		}
		return -1
	}
	ass := func(l []*pb.AttributeAssignment) {
		for _, x := range l {
			ev = append(ev, fmt.Sprintf("A%d", h(x.AttributeEntityId)))
		}
	}
	var sig func(s *pb.Signal)
	sig = func(s *pb.Signal) {
		ev = append(ev, fmt.Sprintf("S%d", h(s.Entity.GetEntityId())))
		ass(s.AttributeAssignments)
		if v, ok := s.Signal.(*pb.Signal_Multiplexer); ok {
			for _, c := range v.Multiplexer.Signals {
				sig(c)
			}
			for _, id := range v.Multiplexer.FixedSignalEntityIds {
				ev = append(ev, fmt.Sprintf("X%d", h(id)))
			}
			for _, g := range v.Multiplexer.Groups {
				ev = append(ev, "G")
				for _, r := range g.GetRefs() {
					ev = append(ev, fmt.Sprintf("P%d:%d", h(r.SignalEntityId), r.RelStartBit))
				}
			}
		}
	}
	for _, b := range n.Buses {
		ev = append(ev, fmt.Sprintf("B%d", h(b.Entity.GetEntityId())))
		ass(b.AttributeAssignments)
		for _, ni := range b.NodeInterfaces {
			ev = append(ev, fmt.Sprintf("N%d", h(ni.NodeEntityId)))
			for _, m := range ni.Messages {
				ev = append(ev, fmt.Sprintf("M%d", h(m.Entity.GetEntityId())))
				ass(m.AttributeAssignments)
				for _, s := range m.Signals {
					sig(s)
				}
				for _, r := range m.Payload.GetRefs() {
					ev = append(ev, fmt.Sprintf("P%d:%d", h(r.SignalEntityId), r.RelStartBit))
				}
				for _, r := range m.Receivers {
					ev = append(ev, fmt.Sprintf("R%d:%d", h(r.NodeEntityId), r.NodeInterfaceNumber))
				}
			}
		}
	}
	for _, x := range n.CanidBuilders {
		ev = append(ev, fmt.Sprintf("F0:%d", h(x.Entity.GetEntityId())))
		for _, op := range x.Operations {
			ev = append(ev, fmt.Sprintf("O%d:%d:%d", int(op.Kind)-1, op.From, op.Len))
		}
	}
	for _, x := range n.Nodes {
		ev = append(ev, fmt.Sprintf("F1:%d", h(x.Entity.GetEntityId())))
		ass(x.AttributeAssignments)
	}
	for _, x := range n.SignalTypes {
		ev = append(ev, fmt.Sprintf("F2:%d", h(x.Entity.GetEntityId())))
	}
	for _, x := range n.SignalUnits {
		ev = append(ev, fmt.Sprintf("F3:%d", h(x.Entity.GetEntityId())))
	}
	for _, x := range n.SignalEnums {
		ev = append(ev, fmt.Sprintf("F4:%d", h(x.Entity.GetEntityId())))
		for _, v := range x.Values {
			ev = append(ev, fmt.Sprintf("V%d", v.Index))
		}
	}
	for _, x := range n.Attributes {
		ev = append(ev, fmt.Sprintf("F5:%d", h(x.Entity.GetEntityId())))
		if ea := x.GetEnumAttribute(); ea != nil {
			for _, v := range ea.Values {
				ev = append(ev, "E"+hx(v))
			}
		}
	}
	return ev
}

var (
	reValTable = regexp.MustCompile(`^VAL_TABLE_ (.*?)((?: \d+ "[^"]*")*)\s*;$`)
	reValPair  = regexp.MustCompile(` (\d+) "([^"]*)"`)
	reBO       = regexp.MustCompile(`^BO_ (\d+) (\S+)\s*: (\d+) (.*)$`)
	reSG       = regexp.MustCompile(`^\s*SG_ (\S+)`)
	reBADef    = regexp.MustCompile(`^BA_DEF_ (BU_|BO_|SG_|)\s*"([^"]*)"`)
	reQuoted   = regexp.MustCompile(`"([^"]*)"`)
	reBA       = regexp.MustCompile(`^BA_ "([^"]*)" (.*);$`)
)

// dbcEvents projects a DBC text onto its order skeleton: nodes (BU_), value tables, messages with
// their signals, attribute value lines of user attributes (owner key, attribute name).
func dbcEvents(text string, attrNames map[string]bool) []string {
	var nodes, labs, msgs, defs, asg, coms, encs, exts []string
	firstSig := false
	for _, ln := range strings.Split(text, "\n") {
		ln = strings.TrimRight(ln, "\r")
		switch {
		case strings.HasPrefix(ln, "BU_:"):
			for _, n := range strings.Fields(strings.TrimPrefix(ln, "BU_:")) {
				nodes = append(nodes, "N"+hx(n))
			}
		case strings.HasPrefix(ln, "VAL_TABLE_ "):
			if m := reValTable.FindStringSubmatch(ln); m != nil {
				lab := clearSp(m[1])
				for _, p := range reValPair.FindAllStringSubmatch(m[2], -1) {
					lab += "/" + p[1] + ":" + strings.ReplaceAll(p[2], " ", "_")
				}
				labs = append(labs, "L"+hx(lab))
			} else {
				labs = append(labs, "L"+hx("unparsed:"+ln))
			}
		case strings.HasPrefix(ln, "BO_ "):
			if m := reBO.FindStringSubmatch(ln); m != nil {
				msgs = append(msgs, "M"+m[1]+"."+hx(m[2]))
				firstSig = true
			}
		case reSG.MatchString(ln) && !strings.HasPrefix(ln, "SG_MUL_VAL_"):
			if firstSig { // the receivers of the message, written on every signal line
				firstSig = false
				if k := strings.LastIndex(ln, "\""); k >= 0 {
					for _, rn := range strings.Split(strings.TrimSpace(ln[k+1:]), ",") {
						if rn = strings.TrimSpace(rn); rn != "" && rn != "Vector__XXX" {
							msgs = append(msgs, "r"+hx(rn))
						}
					}
				}
			}
			msgs = append(msgs, "S"+hx(reSG.FindStringSubmatch(ln)[1]))
		case strings.HasPrefix(ln, "BA_DEF_ "):
			if m := reBADef.FindStringSubmatch(ln); m != nil && attrNames[m[2]] {
				k := map[string]int{"": 0, "BU_": 1, "BO_": 2, "SG_": 3}[m[1]]
				tok := fmt.Sprintf("D%d:%s:", k, hx(m[2]))
				rest := ln[len(m[0]):]
				if strings.HasPrefix(strings.TrimSpace(rest), "ENUM") {
					for _, q := range reQuoted.FindAllStringSubmatch(rest, -1) {
						tok += hx(q[1]) + ","
					}
				}
				defs = append(defs, tok)
			}
		case strings.HasPrefix(ln, "CM_ "):
			f := strings.Fields(ln)
			switch {
			case len(f) >= 3 && f[1] == "BU_":
				coms = append(coms, "CN"+hx(f[2]))
			case len(f) >= 3 && f[1] == "BO_":
				coms = append(coms, "CM"+f[2])
			case len(f) >= 4 && f[1] == "SG_":
				coms = append(coms, "CS"+f[2]+"."+hx(f[3]))
			default:
				coms = append(coms, "CB")
			}
		case strings.HasPrefix(ln, "VAL_ "):
			f := strings.Fields(ln)
			if len(f) >= 3 {
				tok := "VS" + f[1] + "." + hx(strings.TrimSuffix(f[2], ";")) + ":"
				for _, q := range reValPair.FindAllStringSubmatch(ln, -1) {
					tok += q[1] + ","
				}
				encs = append(encs, tok)
			}
		case strings.HasPrefix(ln, "SG_MUL_VAL_ "):
			f := strings.Fields(strings.TrimSuffix(strings.TrimSpace(ln), ";"))
			if len(f) >= 4 {
				exts = append(exts, "X"+hx(f[3])+"."+hx(f[2])+":"+strings.ReplaceAll(strings.Join(f[4:], ""), " ", ""))
			}
		case strings.HasPrefix(ln, "BA_ "):
			m := reBA.FindStringSubmatch(ln)
			if m == nil || !attrNames[m[1]] {
				continue
			}
			f := strings.Fields(m[2])
			owner := "B"
			switch {
			case len(f) >= 2 && f[0] == "BU_":
				owner = "N" + hx(f[1])
			case len(f) >= 2 && f[0] == "BO_":
				owner = "M" + f[1]
			case len(f) >= 3 && f[0] == "SG_":
				owner = "S" + f[1] + "." + hx(f[2])
			}
			asg = append(asg, "a"+owner+":"+hx(m[1]))
		}
	}
	res := append([]string{}, nodes...)
	res = append(res, "|")
	res = append(res, labs...)
	res = append(res, "|")
	res = append(res, msgs...)
	res = append(res, "|")
	res = append(res, defs...)
	res = append(res, "|")
	res = append(res, asg...)
	res = append(res, "|")
	res = append(res, coms...)
	res = append(res, "|")
	res = append(res, encs...)
	res = append(res, "|")
	res = append(res, exts...)
	return res
}
