package main

import (
	"bytes"
	"fmt"
	"math"

	a "github.com/squadracorsepolito/acmelib"
)

// J  enums whose value indexes span the whole int range (negative indexes are accepted by the
// API): the values come out of a map, so every read sorts a differently ordered slice; the order
// of Values() and every export that lists the values must not depend on that order.  A comparator
// computing `a.index - b.index` wraps around for such indexes and stops being a total order.
func checkExtremeEnumIndexes(trials int) (string, string, int) {
	n := 0
	sets := [][]int{
		{math.MinInt, math.MinInt + 7, -3, 0, 2, 5},
		{math.MinInt, -1, 1, 3, 6, 7},
		{math.MinInt + 1, math.MinInt / 2, -2, 0, 1, 2, 4},
		{-4, -1, 0, 1, 3}, // control: no wrap-around
	}
	for trial := 0; trial < trials; trial++ {
		idx := sets[trial%len(sets)]
		net := a.NewNetwork(fmt.Sprintf("ext%d", trial))
		bus := a.NewBus("b")
		node := a.NewNode("n", 1, 1)
		ni, _ := node.GetInterface(0)
		msg := a.NewMessage("m", 1, 8)
		enum := a.NewSignalEnum("wide")
		for k, ix := range idx {
			if err := enum.AddValue(a.NewSignalEnumValue(fmt.Sprintf("v%d", k), ix)); err != nil {
				return "", "", n
			}
		}
		sig, err := a.NewEnumSignal("s", enum)
		if err != nil || net.AddBus(bus) != nil || bus.AddNodeInterface(ni) != nil || ni.AddSentMessage(msg) != nil || msg.AppendSignal(sig) != nil {
			return "", "", n
		}
		var dbc0, md0 string
		var wire0 []byte
		for rep := 0; rep < 40; rep++ {
			vals := enum.Values()
			for k := 1; k < len(vals); k++ {
				if vals[k-1].Index() >= vals[k].Index() {
					return "extreme-enum-index-values-order", fmt.Sprintf("indexes %v: Values() call %d lists index %d before %d", idx, rep, vals[k-1].Index(), vals[k].Index()), n
				}
			}
			n++
			var db, mb, wb bytes.Buffer
			a.ExportBus(&db, bus)
			if err := a.ExportToMarkdown(net, &mb); err != nil {
				return "", "", n
			}
			if err := a.SaveNetwork(net, a.SaveEncodingWire, &wb, nil, nil); err != nil {
				return "", "", n
			}
			if rep == 0 {
				dbc0, md0, wire0 = db.String(), mb.String(), wb.Bytes()
				continue
			}
			n += 3
			if db.String() != dbc0 {
				return "extreme-enum-index-dbc-differs", fmt.Sprintf("indexes %v: ExportBus call %d differs from call 0", idx, rep), n
			}
			if mb.String() != md0 {
				return "extreme-enum-index-markdown-differs", fmt.Sprintf("indexes %v: ExportToMarkdown call %d differs from call 0", idx, rep), n
			}
			if !bytes.Equal(wb.Bytes(), wire0) {
				return "extreme-enum-index-save-differs", fmt.Sprintf("indexes %v: SaveNetwork call %d differs from call 0", idx, rep), n
			}
		}
	}
	return "", "", n
}
