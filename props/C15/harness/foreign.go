package main

import (
	"bytes"
	"fmt"
	"strings"

	a "github.com/squadracorsepolito/acmelib"
)

// K  unrelated library activity between two exports of one unchanged model.  "Byte-identical every
// time" also quantifies over what the process did in between: the export of a model may depend on
// the model only, not on state that an import / load / export of OTHER data leaves behind in the
// library (package-level tables of the dbc reader and writer, caches, counters).  Between the two
// exports the leg hands generated foreign DBC texts to the importer (whatever it answers): DBC
// exports of this case, unchanged and perturbed section by section (foreign
// identifiers added to / symbols dropped from NS_, foreign attribute definitions, value tables,
// comments, nodes, duplicated / dropped / truncated lines), and it loads, exports and drops an
// independent copy of the model.
func foreignIdent(r *rng) string {
	const up = "ABCDEFGHIJKLMNOPQRSTUVWXYZ"
	var sb strings.Builder
	for k, n := 0, 2+r.below(7); k < n; k++ {
		sb.WriteByte(up[r.below(len(up))])
	}
	if r.chance(70) {
		sb.WriteByte('_')
	}
	return sb.String()
}

// perturbDBC returns a text derived from a DBC export, and the name of the perturbation.
func perturbDBC(src string, r *rng) (string, string) {
	lines := strings.Split(src, "\n")
	nsStart, nsEnd := -1, -1
	for i, l := range lines {
		if strings.HasPrefix(l, "NS_") {
			nsStart = i
			for j := i + 1; j < len(lines); j++ {
				if strings.TrimSpace(lines[j]) == "" || !(strings.HasPrefix(lines[j], "\t") || strings.HasPrefix(lines[j], " ")) {
					nsEnd = j
					break
				}
			}
			break
		}
	}
	insert := func(at int, ls ...string) {
		lines = append(lines[:at], append(append([]string{}, ls...), lines[at:]...)...)
	}
	switch r.below(9) {
	case 0:
		return src, "unchanged"
	case 1: // foreign identifiers listed in NS_
		if nsStart >= 0 && nsEnd > nsStart {
			for k, n := 0, 1+r.below(3); k < n; k++ {
				insert(nsStart+1+r.below(nsEnd-nsStart), "\t"+foreignIdent(r))
				nsEnd++
			}
			return strings.Join(lines, "\n"), "ns-foreign-symbol"
		}
		return "VERSION \"\"\n\nNS_ :\n\t" + foreignIdent(r) + "\n\nBS_:\n\nBU_: " + strings.ToLower(foreignIdent(r)) + "\n\n", "ns-foreign-symbol"
	case 2: // symbols dropped from / permuted in NS_
		if nsStart >= 0 && nsEnd > nsStart+2 {
			body := append([]string{}, lines[nsStart+1:nsEnd]...)
			shuffle(r, body)
			body = body[:1+r.below(len(body)-1)]
			lines = append(lines[:nsStart+1], append(body, lines[nsEnd:]...)...)
			return strings.Join(lines, "\n"), "ns-dropped-permuted"
		}
		return src, "unchanged"
	case 3: // foreign attribute definitions / assignments
		an := foreignIdent(r)
		extra := []string{
			fmt.Sprintf("BA_DEF_ \"%s\" INT %d %d;", an, r.below(5), 5+r.below(100)),
			fmt.Sprintf("BA_DEF_ BO_ \"%sM\" STRING ;", an),
			fmt.Sprintf("BA_DEF_ SG_ \"%sE\" ENUM \"x\",\"y\",\"%s\";", an, foreignIdent(r)),
			fmt.Sprintf("BA_DEF_DEF_ \"%s\" %d;", an, r.below(5)),
			fmt.Sprintf("BA_ \"%s\" %d;", an, r.below(5)),
		}
		return src + strings.Join(extra[:1+r.below(len(extra))], "\n") + "\n", "foreign-attributes"
	case 4: // foreign value tables, comments
		extra := []string{
			fmt.Sprintf("VAL_TABLE_ %s %d \"%s\" 0 \"zero\" ;", foreignIdent(r), 1+r.below(9), foreignIdent(r)),
			fmt.Sprintf("CM_ \"%s\";", foreignIdent(r)),
			fmt.Sprintf("CM_ BU_ %s \"%s\";", foreignIdent(r), foreignIdent(r)),
		}
		return src + strings.Join(extra[:1+r.below(len(extra))], "\n") + "\n", "foreign-tables-comments"
	case 5: // foreign nodes
		for i, l := range lines {
			if strings.HasPrefix(l, "BU_") {
				lines[i] = l + " " + foreignIdent(r) + " " + foreignIdent(r)
				return strings.Join(lines, "\n"), "foreign-nodes"
			}
		}
		return src, "unchanged"
	case 6: // a line duplicated
		if len(lines) > 1 {
			k := r.below(len(lines))
			insert(k, lines[k])
		}
		return strings.Join(lines, "\n"), "line-duplicated"
	case 7: // a line dropped
		if len(lines) > 1 {
			k := r.below(len(lines))
			lines = append(lines[:k], lines[k+1:]...)
		}
		return strings.Join(lines, "\n"), "line-dropped"
	default: // truncated
		return src[:r.below(len(src)+1)], "truncated"
	}
}

func importQuietly(name, text string) (accepted bool) {
	defer func() { recover() }() // a panic of the importer on a foreign text is not C15's subject
	bus, err := a.ImportDBCFile(name, strings.NewReader(text))
	if err == nil && bus != nil {
		var sb strings.Builder
		a.ExportBus(&sb, bus) // exporting OTHER data is foreign activity too
		return true
	}
	return false
}

// checkForeignActivity: export, foreign activity, export; byte for byte.
func checkForeignActivity(net *a.Network, prevDBC []string, r *rng, kinds map[string]int) (string, string, int) {
	before := export(net)
	if before.err != "" {
		return "", "", 0 // judged by leg A
	}
	n := 0
	pool := append(append([]string{}, before.dbc...), prevDBC...)
	var done []string
	for k, rounds := 0, 4+r.below(4); k < rounds && len(pool) > 0; k++ {
		text, what := perturbDBC(pool[r.below(len(pool))], r)
		ok := importQuietly(fmt.Sprintf("foreign%d.dbc", k), text)
		kinds["foreign-"+what]++
		if ok {
			kinds["foreign-import-accepted"]++
		} else {
			kinds["foreign-import-refused"]++
		}
		done = append(done, what)
		// an export after every step, so that the first step that matters is the one named
		after := export(net)
		n++
		if s, d := diff(before, after, false); s != "" {
			s = refineDBCSection(s, before, after)
			return "foreign-activity-" + s, fmt.Sprintf("the export of an unchanged model differs after the importer was handed unrelated DBC texts (%s; the last one %s): %s",
				strings.Join(done, ", "), map[bool]string{true: "was accepted", false: "was refused"}[ok], d), n
		}
	}
	// an independent copy of the model loaded, exported in every format and dropped
	if twin, err := load(before.wire); err == nil {
		export(twin)
		var wb bytes.Buffer
		a.SaveNetwork(twin, a.SaveEncodingWire, &wb, nil, nil)
		kinds["foreign-twin-loaded"]++
		after := export(net)
		n++
		if s, d := diff(before, after, false); s != "" {
			s = refineDBCSection(s, before, after)
			return "foreign-activity-" + s, "the export of an unchanged model differs after an independent copy of it was loaded and exported: " + d, n
		}
	}
	return "", "", n
}

// refineDBCSection: a DBC difference on an indented or blank line is named after the section
// header (the last unindented line) above it in the later export.
func refineDBCSection(sig string, x, y outputs) string {
	if !strings.HasPrefix(sig, "dbc-") || len(x.dbc) != len(y.dbc) {
		return sig
	}
	for i := range x.dbc {
		if x.dbc[i] == y.dbc[i] {
			continue
		}
		lx, ly := strings.Split(x.dbc[i], "\n"), strings.Split(y.dbc[i], "\n")
		k := 0
		for k < len(lx) && k < len(ly) && lx[k] == ly[k] {
			k++
		}
		if k >= len(ly) {
			k = len(ly) - 1
		}
		for ; k >= 0; k-- {
			l := ly[k]
			if strings.TrimSpace(l) != "" && !strings.HasPrefix(l, "\t") && !strings.HasPrefix(l, " ") {
				return "dbc-" + dbcSection(l)
			}
		}
		return sig
	}
	return sig
}
