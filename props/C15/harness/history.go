package main

import (
	"fmt"
	"os"
	"path/filepath"
	"runtime"
	"strings"

	a "github.com/squadracorsepolito/acmelib"
)

// ---------------------------------------------------------------------------------------------
// D  ExportNetwork: one file per bus, each byte-identical to ExportBus, for every GOMAXPROCS
// ---------------------------------------------------------------------------------------------

var netProcs = []int{1, 2, 3, 4, 8, 16}

// checkExportNetwork returns (signature suffix, detail) of the first failure, "" when clean.
func checkExportNetwork(net *a.Network, want []string, scratch string, tag string) (string, string, int) {
	buses := net.Buses()
	n := 0
	for pi, procs := range netProcs {
		prev := runtime.GOMAXPROCS(procs)
		base := filepath.Join(scratch, fmt.Sprintf("%s-p%d", tag, procs))
		// every second run exports into a directory that already holds LONGER files of the same
		// names: the output must be a function of the model, not of what the directory held
		stale := pi%2 == 1
		if stale {
			dir := filepath.Join(base, clearSp(net.Name()))
			if os.MkdirAll(dir, 0o755) == nil {
				for bi, bus := range buses {
					old := want[bi] + "\nCM_ \"stale tail of an earlier, longer export\";\n" + want[bi]
					_ = os.WriteFile(filepath.Join(dir, clearSp(bus.Name())+".dbc"), []byte(old), 0o644)
				}
			}
		}
		err := func() (err error) {
			defer func() {
				if r := recover(); r != nil {
					err = fmt.Errorf("panic: %v", r)
				}
			}()
			return a.ExportNetwork(net, base)
		}()
		runtime.GOMAXPROCS(prev)
		shape := "buses<=procs"
		if len(buses) > procs {
			shape = "buses>procs"
		}
		if err != nil {
			os.RemoveAll(base)
			return "exportnetwork-error", fmt.Sprintf("ExportNetwork with %d buses under GOMAXPROCS=%d: %v", len(buses), procs, err), n
		}
		dir := filepath.Join(base, clearSp(net.Name()))
		for bi, bus := range buses {
			n++
			data, rerr := os.ReadFile(filepath.Join(dir, clearSp(bus.Name())+".dbc"))
			switch {
			case rerr != nil:
				os.RemoveAll(base)
				return "exportnetwork-missing-file-" + shape, fmt.Sprintf("%d buses, GOMAXPROCS=%d: file of bus %d (%q): %v", len(buses), procs, bi, bus.Name(), rerr), n
			case len(data) == 0 && len(want[bi]) > 0:
				os.RemoveAll(base)
				return "exportnetwork-empty-file-" + shape, fmt.Sprintf("%d buses, GOMAXPROCS=%d: the file of bus %d (%q) is empty, ExportBus writes %d bytes", len(buses), procs, bi, bus.Name(), len(want[bi])), n
			case stale && len(data) > len(want[bi]) && string(data[:len(want[bi])]) == want[bi]:
				os.RemoveAll(base)
				return "exportnetwork-stale-tail", fmt.Sprintf("%d buses, GOMAXPROCS=%d: the file of bus %d (%q) existed and was longer: %d bytes of the old file remain after the %d bytes ExportBus writes", len(buses), procs, bi, bus.Name(), len(data)-len(want[bi]), len(want[bi])), n
			case string(data) != want[bi]:
				p, q := firstDiffLine(want[bi], string(data))
				os.RemoveAll(base)
				return "exportnetwork-differs-" + dbcSection(p), fmt.Sprintf("%d buses, GOMAXPROCS=%d: file of bus %d differs from ExportBus: %q vs %q", len(buses), procs, bi, p, q), n
			}
		}
		os.RemoveAll(base)
	}
	return "", "", n
}

// ---------------------------------------------------------------------------------------------
// E  histories: exports are functions of the current model, not of the history of reads
// ---------------------------------------------------------------------------------------------

type mutation struct {
	name string
	do   func(b *Built) error
	// the same change as a model-level mutator of coq/C15 ("mutator handle args"), evaluated
	// AFTER the call (Message.UpdateID reports the CAN-ID the bus's builder computed); nil when
	// the change has no model-level counterpart that the raw dump can show
	model func(b *Built) string
}

// (dump before, change, dump after) triples for the mutator tie, written to <out>.mut
var (
	mutOut     strings.Builder
	mutTriples int
)

const mutPerHistory = 10

// genMutations derives a list of state changes from the specification (resolved through the
// Built so that the same list can be applied to two builds of the specification).
func genMutations(sp *Spec, r *rng) []mutation {
	var ms []mutation
	uniq := 0
	fresh := func(prefix string) string { uniq++; return fmt.Sprintf("%s%d_h", prefix, uniq) }
	var allMsgs []*MsgSpec
	for _, bs := range sp.Buses {
		for _, f := range bs.Ifs {
			allMsgs = append(allMsgs, f.Msgs...)
		}
	}
	for bi, bs := range sp.Buses {
		bi, bs := bi, bs
		// reverse the order of the nodes of the bus: the lowest id becomes the highest
		if len(bs.Ifs) >= 2 {
			for k, f := range bs.Ifs {
				ni, id := f.Ref.Node, a.NodeID(5000+100*bi+len(bs.Ifs)-k)
				if k%2 == 0 || r.chance(60) {
					ms = append(ms, mutation{"Node.UpdateID", func(b *Built) error { return b.Nodes[ni].UpdateID(id) },
						func(b *Built) string { return fmt.Sprintf("mut_node_id %d %d", hNode+ni, uint32(id)) }})
				}
			}
		}
		if r.chance(50) {
			name := fresh("a_bus") // sorts before every generated name
			if r.chance(50) {
				name = fresh("zz_bus")
			}
			ms = append(ms, mutation{"Bus.UpdateName", func(b *Built) error { return b.Buses[bi].UpdateName(name) },
				func(b *Built) string { return fmt.Sprintf("mut_bus_name %d %s", hBus+bi, hx(name)) }})
		}
		if len(bs.Ifs) > 0 && r.chance(50) {
			f := bs.Ifs[r.below(len(bs.Ifs))]
			ref := f.Ref
			ms = append(ms, mutation{"Bus.RemoveNodeInterface+AddNodeInterface", func(b *Built) error {
				ni, err := b.Nodes[ref.Node].GetInterface(ref.Num)
				if err != nil {
					return err
				}
				if err := b.Buses[bi].RemoveNodeInterface(b.Nodes[ref.Node].EntityID()); err != nil {
					return err
				}
				return b.Buses[bi].AddNodeInterface(ni)
			}, nil})
		}
	}
	// REFUSED changes: they must leave no trace (not even in an index a later change consults)
	onBus := map[int][]int{} // node -> buses it is attached to
	for bi, bs := range sp.Buses {
		for _, f := range bs.Ifs {
			onBus[f.Ref.Node] = append(onBus[f.Ref.Node], bi)
		}
	}
	for ni, buses := range onBus {
		if len(buses) < 2 {
			continue
		}
		ni := ni
		for _, pair := range [][2]int{{buses[0], buses[1]}, {buses[1], buses[0]}} {
			first, second := pair[0], pair[1]
			// an id taken on [second] and free on [first]
			for _, f := range sp.Buses[second].Ifs {
				other := f.Ref.Node
				if other == ni {
					continue
				}
				ms = append(ms, mutation{"refused Node.UpdateID then AddNodeInterface(duplicate id)", func(b *Built) error {
					taken := b.Nodes[other].ID()
					for _, x := range b.Buses[first].NodeInterfaces() {
						if x.Node().ID() == taken {
							return fmt.Errorf("not applicable")
						}
					}
					oldID := b.Nodes[ni].ID()
					if err := b.Nodes[ni].UpdateID(taken); err == nil {
						return nil // accepted (the id was free everywhere): an ordinary change
					}
					// the refusal must not have released the old id on the first bus
					dup := a.NewNode(fmt.Sprintf("dup_%d_%d", ni, first), oldID, 1)
					di, _ := dup.GetInterface(0)
					return b.Buses[first].AddNodeInterface(di)
				}, nil})
				break
			}
		}
	}
	for bi := range sp.Buses {
		bi := bi
		if len(sp.Buses) >= 2 && r.chance(50) {
			oi := (bi + 1) % len(sp.Buses)
			ms = append(ms, mutation{"refused Bus.UpdateName(existing)", func(b *Built) error {
				return b.Buses[bi].UpdateName(b.Buses[oi].Name())
			}, func(b *Built) string { return fmt.Sprintf("mut_bus_name %d %s", hBus+bi, hx(b.Buses[oi].Name())) }})
		}
		if len(sp.Buses[bi].Ifs) >= 2 && r.chance(50) {
			x, y := sp.Buses[bi].Ifs[0].Ref.Node, sp.Buses[bi].Ifs[1].Ref.Node
			ms = append(ms, mutation{"refused Node.UpdateName(existing on the bus)", func(b *Built) error {
				return b.Nodes[x].UpdateName(b.Nodes[y].Name())
			}, nil})
			ref := sp.Buses[bi].Ifs[0].Ref
			ms = append(ms, mutation{"refused Bus.AddNodeInterface(already attached)", func(b *Built) error {
				ni, err := b.Nodes[ref.Node].GetInterface(ref.Num)
				if err != nil {
					return err
				}
				return b.Buses[bi].AddNodeInterface(ni)
			}, nil})
		}
	}
	for ni := range sp.Nodes {
		ni := ni
		if r.chance(30) {
			name := fresh("node")
			ms = append(ms, mutation{"Node.UpdateName", func(b *Built) error { return b.Nodes[ni].UpdateName(name) }, nil})
		}
	}
	for k, m := range allMsgs {
		m, k := m, k
		switch r.below(7) {
		case 0:
			name := fresh("msg")
			ms = append(ms, mutation{"Message.UpdateName", func(b *Built) error { return b.MsgOf[m].UpdateName(name) },
				func(b *Built) string { return fmt.Sprintf("mut_msg_name %d %s", hMsg+k, hx(name)) }})
		case 1:
			id := a.MessageID(2000 - k) // reverses the order of the messages that get it
			ms = append(ms, mutation{"Message.UpdateID", func(b *Built) error { return b.MsgOf[m].UpdateID(id) },
				func(b *Built) string { return fmt.Sprintf("mut_msg_id %d %d %d", hMsg+k, uint32(id), uint32(b.MsgOf[m].GetCANID())) }})
		case 2:
			id := a.CANID(3000 + k)
			ms = append(ms, mutation{"Message.SetStaticCANID", func(b *Built) error { return b.MsgOf[m].SetStaticCANID(id) },
				func(b *Built) string { return fmt.Sprintf("mut_msg_static %d %d", hMsg+k, uint32(id)) }})
		case 3:
			p := a.MessagePriority(r.below(4))
			ms = append(ms, mutation{"Message.SetPriority", func(b *Built) error { b.MsgOf[m].SetPriority(p); return nil }, nil})
		case 4:
			c := 5 * (1 + r.below(50))
			ms = append(ms, mutation{"Message.SetCycleTime", func(b *Built) error { b.MsgOf[m].SetCycleTime(c); return nil }, nil})
		case 5:
			if len(m.Recv) > 0 {
				rf := m.Recv[r.below(len(m.Recv))]
				ms = append(ms, mutation{"Message.RemoveReceiver+AddReceiver", func(b *Built) error {
					ni, err := b.Nodes[rf.Node].GetInterface(rf.Num)
					if err != nil {
						return err
					}
					if err := b.MsgOf[m].RemoveReceiver(b.Nodes[rf.Node].EntityID()); err != nil {
						return err
					}
					return b.MsgOf[m].AddReceiver(ni)
				}, nil})
			}
		case 6:
			if len(m.Sigs) > 0 {
				s := m.Sigs[r.below(len(m.Sigs))]
				name := fresh("s")
				ms = append(ms, mutation{"Signal.UpdateName", func(b *Built) error { return b.SigOf[s].UpdateName(name) }, nil})
			}
		}
	}
	for ti := range sp.Types {
		ti := ti
		if r.chance(30) {
			name := fresh("ty")
			ms = append(ms, mutation{"SignalType.SetName", func(b *Built) error { b.Types[ti].SetName(name); return nil }, nil})
		}
	}
	for ui := range sp.Units {
		ui := ui
		if r.chance(30) {
			name := fresh("un")
			ms = append(ms, mutation{"SignalUnit.SetName", func(b *Built) error { b.Units[ui].SetName(name); return nil }, nil})
		}
	}
	for ei := range sp.Enums {
		ei := ei
		if r.chance(30) {
			name := fresh("en")
			ms = append(ms, mutation{"SignalEnum.UpdateName", func(b *Built) error { b.Enums[ei].UpdateName(name); return nil }, nil})
		}
	}
	// shuffle
	for i := len(ms) - 1; i > 0; i-- {
		j := r.below(i + 1)
		ms[i], ms[j] = ms[j], ms[i]
	}
	return ms
}

func applyMutation(b *Built, m mutation) (err error) {
	defer func() {
		if r := recover(); r != nil {
			err = fmt.Errorf("panic in %s: %v", m.name, r)
		}
	}()
	return m.do(b)
}

// reads: everything an application may call between two changes
func readAll(b *Built) {
	defer func() { recover() }()
	export(b.Net)
	_ = b.Net.String()
	for _, bus := range b.Net.Buses() {
		for _, ni := range bus.NodeInterfaces() {
			for _, m := range ni.SentMessages() {
				m.Receivers()
				m.AttributeAssignments()
				m.GetCANID()
			}
			ni.ReceivedMessages()
		}
	}
}

type historyResult struct {
	final    *Built // the build that was read between the changes
	out      outputs
	kind     string
	detail   string
	muts     int
	applied  map[string]int
	compared int
}

// checkHistory: build, read, then change step by step with reads in between; the final exports
// must equal those of a fresh build that received the same changes without a single read, and
// those of the final model reloaded from its own save.
func checkHistory(sp *Spec, seed uint64, idTies bool) historyResult {
	res := historyResult{applied: map[string]int{}}
	muts := genMutations(sp, &rng{s: seed})
	b0 := build(sp, nil)
	b1 := build(sp, nil)
	if len(b0.Errs) > 0 || len(b1.Errs) > 0 {
		return res
	}
	readAll(b0)
	triples := 0
	for _, m := range muts {
		before := ""
		if m.model != nil && triples < mutPerHistory {
			before = rawDump(0, sp, b0)
		}
		e0 := applyMutation(b0, m)
		if before != "" {
			triples++
			mutTriples++
			acc := 0
			if e0 == nil {
				acc = 1
			}
			fmt.Fprintf(&mutOut, "mut %d %s\n%s%s", acc, m.model(b0), before, rawDump(1, sp, b0))
		}
		e1 := applyMutation(b1, m)
		if (e0 == nil) != (e1 == nil) {
			res.kind, res.detail = "history-mutation-outcome", fmt.Sprintf("%s: %v after reads, %v without reads", m.name, e0, e1)
			return res
		}
		if e0 == nil {
			res.applied[m.name]++
			res.muts++
		} else if strings.HasPrefix(m.name, "refused") {
			res.applied[m.name+" (refused)"]++
		}
		readAll(b0) // interleaved reads on b0 only
	}
	o0 := export(b0.Net)
	o1 := export(b1.Net)
	res.final, res.out = b0, o0
	// the final model - after accepted AND refused changes - exports the same every time
	for k := 0; k < 6; k++ {
		res.compared++
		if s, d := diff(o0, export(b0.Net), false); s != "" {
			res.kind, res.detail = "history-repeat-"+s, fmt.Sprintf("after %d accepted changes and the refused ones, two exports of the unchanged model differ: %s", res.muts, d)
			return res
		}
	}
	res.compared++
	// ids of b0 and b1 differ: wire modulo renaming, and only when no key falls back to the id
	// (with same-named attributes / receivers the order follows the ids: reload comparison only)
	if !idTies {
		if s, d := diff(o0, o1, true); s != "" {
			res.kind, res.detail = "history-"+s, fmt.Sprintf("after %d changes with reads in between the export differs from a fresh build with the same changes: %s", res.muts, d)
			return res
		}
	}
	// reload of the final model from its own save (same ids); judged only when the unread
	// twin survives its own reload (otherwise the difference is the loader's, C12)
	l1, err1 := load(o1.wire)
	l0, err0 := load(o0.wire)
	if err1 == nil && err0 == nil {
		r1, r0 := export(l1), export(l0)
		r1.wire, r0.wire = nil, nil
		c1, c0 := o1, o0
		c1.wire, c0.wire = nil, nil
		if s, _ := diff(c1, r1, false); s == "" {
			res.compared++
			if s, d := diff(c0, r0, false); s != "" {
				res.kind, res.detail = "history-reload-"+s, fmt.Sprintf("after %d changes with reads in between the model exports differently from its own reload: %s", res.muts, d)
			}
		}
	}
	return res
}

var _ = os.Remove
