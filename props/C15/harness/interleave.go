package main

import (
	"bytes"
	"fmt"
	"strings"

	a "github.com/squadracorsepolito/acmelib"
)

// single-format exports
func exportOne(net *a.Network, format int) (out string, err string) {
	defer func() {
		if r := recover(); r != nil {
			err = fmt.Sprintf("panic: %v", r)
		}
	}()
	switch format {
	case 0: // Markdown
		var sb strings.Builder
		if e := a.ExportToMarkdown(net, &sb); e != nil {
			err = e.Error()
		}
		return sb.String(), err
	case 1: // wire
		var wb bytes.Buffer
		if e := a.SaveNetwork(net, a.SaveEncodingWire, &wb, nil, nil); e != nil {
			err = e.Error()
		}
		return wb.String(), err
	default: // DBC of every bus
		var sb strings.Builder
		for _, bus := range net.Buses() {
			a.ExportBus(&sb, bus)
			sb.WriteString("\x00")
		}
		return sb.String(), ""
	}
}

var formatNames = []string{"md", "wire", "dbc"}

// checkInterleave: for every format as the FIRST export of a fresh build, export the three
// formats in turn twice; each export must equal the first export of its format on that build,
// and (no id in DBC / Markdown) the first exports of the builds must agree with each other.
func checkInterleave(sp *Spec, idTies bool) (string, string, int) {
	n := 0
	var firstOf [3][3]string // [start][format]
	for start := 0; start < 3; start++ {
		b := build(sp, nil)
		if len(b.Errs) > 0 {
			return "", "", n
		}
		seen := [3]bool{}
		for k := 0; k < 6; k++ {
			f := (start + k) % 3
			out, err := exportOne(b.Net, f)
			n++
			if err != "" {
				return "", "", n // judged by leg A
			}
			if !seen[f] {
				seen[f], firstOf[start][f] = true, out
				continue
			}
			if out != firstOf[start][f] {
				p, q := firstDiffLine(firstOf[start][f], out)
				var prev []string
				for j := 0; j < k; j++ {
					prev = append(prev, formatNames[(start+j)%3])
				}
				return "interleave-" + formatNames[f] + "-changed", fmt.Sprintf("the %s export differs from the first %s export of the same unchanged model after the exports %v: %q vs %q",
					formatNames[f], formatNames[f], prev, p, q), n
			}
		}
	}
	if !idTies {
		for _, f := range []int{0, 2} {
			for start := 1; start < 3; start++ {
				n++
				if firstOf[start][f] != firstOf[0][f] {
					p, q := firstDiffLine(firstOf[0][f], firstOf[start][f])
					return "interleave-" + formatNames[f] + "-depends-on-earlier-export", fmt.Sprintf("the first %s export of a fresh build differs when a %s export came first: %q vs %q",
						formatNames[f], formatNames[start], p, q), n
				}
			}
		}
	}
	return "", "", n
}
