// C15 harness: exports are deterministic functions of the model.
//
// Per generated specification (with deliberately tied sort keys):
//   A  build through the public API, export DBC (every bus), Markdown and the wire encoding
//      REPS times in this process while cycling runtime.GOMAXPROCS over {1,4,16}; every
//      repetition must be byte-identical to the first (Go randomises every map range);
//   B  rebuild the same specification in a permuted construction order (fresh random entity
//      ids): DBC and Markdown must be byte-identical; the wire encoding is compared after the
//      canonical renaming "entity id -> index of first occurrence, create_time -> 0".
//      Specifications in which the only distinguishing sort key of two map entries is the
//      entity id (two same-named attributes assigned to one entity, two same-named receivers)
//      are excluded from B and covered by C;
//   C  reload: the saved wire bytes are loaded as they are and after permuting every
//      map-like repeated field (LoadNetwork keeps the saved entity ids, so both are the same
//      model built in a different order); all three exports must be byte-identical.
// The process itself is started under GOMAXPROCS=1,4,16 by check.py and the id-free outputs
// (DBC, Markdown, canonical wire) are compared across the three processes through a digest file.
package main

import (
	"bufio"
	"bytes"
	"crypto/sha256"
	"encoding/hex"
	"fmt"
	"os"
	"path/filepath"
	"runtime"
	"sort"
	"strconv"
	"strings"

	a "github.com/squadracorsepolito/acmelib"
	pb "github.com/squadracorsepolito/acmelib/proto/gen/go/acmelib/v1"
	"google.golang.org/protobuf/proto"
)

type outputs struct {
	dbc  []string // per bus, in Buses() order
	md   string
	wire []byte
	err  string
}

func export(net *a.Network) (o outputs) {
	defer func() {
		if r := recover(); r != nil {
			o.err = fmt.Sprintf("panic: %v", r)
		}
	}()
	for _, bus := range net.Buses() {
		var sb strings.Builder
		a.ExportBus(&sb, bus)
		o.dbc = append(o.dbc, sb.String())
	}
	var sb strings.Builder
	if err := a.ExportToMarkdown(net, &sb); err != nil {
		o.err = "markdown: " + err.Error()
	}
	o.md = sb.String()
	var wb bytes.Buffer
	if err := a.SaveNetwork(net, a.SaveEncodingWire, &wb, nil, nil); err != nil {
		o.err = "save: " + err.Error()
	}
	o.wire = wb.Bytes()
	return o
}

// ---------------------------------------------------------------------------------------------
// locating a difference (signature = format + the section in which the outputs first differ)
// ---------------------------------------------------------------------------------------------

func firstDiffLine(x, y string) (string, string) {
	xl, yl := strings.Split(x, "\n"), strings.Split(y, "\n")
	for i := 0; i < len(xl) || i < len(yl); i++ {
		var p, q string
		if i < len(xl) {
			p = xl[i]
		}
		if i < len(yl) {
			q = yl[i]
		}
		if p != q {
			return p, q
		}
	}
	return "", ""
}

func dbcSection(line string) string {
	f := strings.Fields(line)
	if len(f) == 0 {
		return "blank"
	}
	k := f[0]
	if strings.HasSuffix(k, ":") {
		k = strings.TrimSuffix(k, ":")
	}
	return k
}

func mdSection(doc, diffLine string) string {
	// the nearest level-2 heading above the first differing line
	sec := "preamble"
	for _, ln := range strings.Split(doc, "\n") {
		if strings.HasPrefix(ln, "## ") {
			t := strings.TrimPrefix(ln, "## ")
			if t == "Signal Types" || t == "Signal Units" || t == "Signal Enums" {
				sec = strings.ReplaceAll(t, " ", "-")
			} else {
				sec = "bus-section"
			}
		}
		if ln == diffLine {
			break
		}
	}
	return sec
}

func wireSection(x, y []byte) string {
	var p, q pb.Network
	if proto.Unmarshal(x, &p) != nil || proto.Unmarshal(y, &q) != nil {
		return "undecodable"
	}
	eq := func(u, v proto.Message) bool { return proto.Equal(u, v) }
	n := func(k int, f func(m *pb.Network, i int) proto.Message, lx, ly int) bool {
		if lx != ly {
			return false
		}
		for i := 0; i < lx; i++ {
			if !eq(f(&p, i), f(&q, i)) {
				return false
			}
		}
		return true
	}
	switch {
	case !n(0, func(m *pb.Network, i int) proto.Message { return m.CanidBuilders[i] }, len(p.CanidBuilders), len(q.CanidBuilders)):
		return "canid_builders"
	case !n(0, func(m *pb.Network, i int) proto.Message { return m.Nodes[i] }, len(p.Nodes), len(q.Nodes)):
		return "nodes"
	case !n(0, func(m *pb.Network, i int) proto.Message { return m.SignalTypes[i] }, len(p.SignalTypes), len(q.SignalTypes)):
		return "signal_types"
	case !n(0, func(m *pb.Network, i int) proto.Message { return m.SignalUnits[i] }, len(p.SignalUnits), len(q.SignalUnits)):
		return "signal_units"
	case !n(0, func(m *pb.Network, i int) proto.Message { return m.SignalEnums[i] }, len(p.SignalEnums), len(q.SignalEnums)):
		return "signal_enums"
	case !n(0, func(m *pb.Network, i int) proto.Message { return m.Attributes[i] }, len(p.Attributes), len(q.Attributes)):
		return "attributes"
	case !n(0, func(m *pb.Network, i int) proto.Message { return m.Buses[i] }, len(p.Buses), len(q.Buses)):
		return "buses"
	}
	return "encoding"
}

// diff returns "" when equal, else a signature suffix + detail.
func diff(x, y outputs, canonWire bool) (string, string) {
	if x.err != y.err {
		return "error", fmt.Sprintf("%q vs %q", x.err, y.err)
	}
	if len(x.dbc) != len(y.dbc) {
		return "dbc-buscount", ""
	}
	for i := range x.dbc {
		if x.dbc[i] != y.dbc[i] {
			p, q := firstDiffLine(x.dbc[i], y.dbc[i])
			return "dbc-" + dbcSection(p), fmt.Sprintf("bus %d: %q vs %q", i, p, q)
		}
	}
	if x.md != y.md {
		p, q := firstDiffLine(x.md, y.md)
		return "md-" + mdSection(x.md, p), fmt.Sprintf("%q vs %q", p, q)
	}
	wx, wy := x.wire, y.wire
	if canonWire {
		wx, wy = canonicalWire(wx), canonicalWire(wy)
	}
	if !bytes.Equal(wx, wy) {
		return "wire-" + wireSection(wx, wy), fmt.Sprintf("%d vs %d bytes", len(wx), len(wy))
	}
	return "", ""
}

// ---------------------------------------------------------------------------------------------
// canonical renaming of the wire encoding; permutation of map-like repeated fields
// ---------------------------------------------------------------------------------------------

func canonicalWire(w []byte) []byte {
	var n pb.Network
	if err := proto.Unmarshal(w, &n); err != nil {
		return w
	}
	ids := map[string]string{}
	ren := func(s *string) {
		if *s == "" {
			return
		}
		if _, ok := ids[*s]; !ok {
			ids[*s] = fmt.Sprintf("#%d", len(ids))
		}
		*s = ids[*s]
	}
	ent := func(e *pb.Entity) {
		if e != nil {
			ren(&e.EntityId)
			e.CreateTime = nil
		}
	}
	ass := func(l []*pb.AttributeAssignment) {
		for _, x := range l {
			ren(&x.EntityId)
			ren(&x.AttributeEntityId)
		}
	}
	var sig func(s *pb.Signal)
	pay := func(p *pb.SignalPayload) {
		if p != nil {
			for _, r := range p.Refs {
				ren(&r.SignalEntityId)
			}
		}
	}
	sig = func(s *pb.Signal) {
		ent(s.Entity)
		ass(s.AttributeAssignments)
		switch v := s.Signal.(type) {
		case *pb.Signal_Standard:
			ren(&v.Standard.TypeEntityId)
			ren(&v.Standard.UnitEntityId)
		case *pb.Signal_Enum:
			ren(&v.Enum.EnumEntityId)
		case *pb.Signal_Multiplexer:
			for _, c := range v.Multiplexer.Signals {
				sig(c)
			}
			for i := range v.Multiplexer.FixedSignalEntityIds {
				ren(&v.Multiplexer.FixedSignalEntityIds[i])
			}
			for _, g := range v.Multiplexer.Groups {
				pay(g)
			}
		}
	}
	ent(n.Entity)
	for _, b := range n.Buses {
		ent(b.Entity)
		ass(b.AttributeAssignments)
		ren(&b.CanidBuilderEntityId)
		for _, ni := range b.NodeInterfaces {
			ren(&ni.NodeEntityId)
			for _, m := range ni.Messages {
				ent(m.Entity)
				ass(m.AttributeAssignments)
				for _, s := range m.Signals {
					sig(s)
				}
				pay(m.Payload)
				for _, r := range m.Receivers {
					ren(&r.NodeEntityId)
				}
			}
		}
	}
	for _, x := range n.CanidBuilders {
		ent(x.Entity)
	}
	for _, x := range n.Nodes {
		ent(x.Entity)
		ass(x.AttributeAssignments)
	}
	for _, x := range n.SignalTypes {
		ent(x.Entity)
	}
	for _, x := range n.SignalUnits {
		ent(x.Entity)
	}
	for _, x := range n.SignalEnums {
		ent(x.Entity)
		for _, v := range x.Values {
			ent(v.Entity)
		}
	}
	for _, x := range n.Attributes {
		ent(x.Entity)
	}
	out, err := proto.MarshalOptions{Deterministic: true}.Marshal(&n)
	if err != nil {
		return w
	}
	return out
}

func shuffle[T any](r *rng, l []T) {
	for i := len(l) - 1; i > 0; i-- {
		j := r.below(i + 1)
		l[i], l[j] = l[j], l[i]
	}
}

// permuteWire reorders every repeated field that acmelib keeps in a map.
func permuteWire(w []byte, r *rng) ([]byte, error) {
	var n pb.Network
	if err := proto.Unmarshal(w, &n); err != nil {
		return nil, err
	}
	var sig func(s *pb.Signal)
	sig = func(s *pb.Signal) {
		shuffle(r, s.AttributeAssignments)
		if v, ok := s.Signal.(*pb.Signal_Multiplexer); ok {
			for _, c := range v.Multiplexer.Signals {
				sig(c)
			}
		}
	}
	shuffle(r, n.Buses)
	shuffle(r, n.CanidBuilders)
	shuffle(r, n.Nodes)
	shuffle(r, n.SignalTypes)
	shuffle(r, n.SignalUnits)
	shuffle(r, n.SignalEnums)
	shuffle(r, n.Attributes)
	for _, b := range n.Buses {
		shuffle(r, b.NodeInterfaces)
		shuffle(r, b.AttributeAssignments)
		for _, ni := range b.NodeInterfaces {
			shuffle(r, ni.Messages)
			for _, m := range ni.Messages {
				shuffle(r, m.Receivers)
				shuffle(r, m.AttributeAssignments)
				for _, s := range m.Signals {
					sig(s)
				}
			}
		}
	}
	for _, x := range n.Nodes {
		shuffle(r, x.AttributeAssignments)
	}
	for _, x := range n.SignalEnums {
		shuffle(r, x.Values)
	}
	return proto.Marshal(&n)
}

func load(w []byte) (net *a.Network, err error) {
	defer func() {
		if r := recover(); r != nil {
			err = fmt.Errorf("panic: %v", r)
		}
	}()
	return a.LoadNetwork(bytes.NewReader(w), a.SaveEncodingWire)
}

// idKeyedTies: two map entries of one getter whose only distinguishing sort key is the entity id.
func idKeyedTies(sp *Spec) bool {
	dupAttr := func(as []AssignSpec) bool {
		seen := map[string]bool{}
		for _, x := range as {
			n := sp.Attrs[x.Attr].Name
			if seen[n] {
				return true
			}
			seen[n] = true
		}
		return false
	}
	var sigT func(s *SigSpec) bool
	sigT = func(s *SigSpec) bool {
		if dupAttr(s.Attrs) {
			return true
		}
		for _, c := range s.Children {
			if sigT(c.Sig) {
				return true
			}
		}
		return false
	}
	for _, n := range sp.Nodes {
		if dupAttr(n.Attrs) {
			return true
		}
	}
	for _, b := range sp.Buses {
		if dupAttr(b.Attrs) {
			return true
		}
		for _, f := range b.Ifs {
			for _, m := range f.Msgs {
				if dupAttr(m.Attrs) {
					return true
				}
				seen := map[string]bool{}
				for _, rf := range m.Recv {
					nm := sp.Nodes[rf.Node].Name
					if seen[nm] {
						return true
					}
					seen[nm] = true
				}
				for _, s := range m.Sigs {
					if sigT(s) {
						return true
					}
				}
			}
		}
	}
	return false
}

// tieKinds measures which sort keys are tied among the entities one export actually lists.
func tieKinds(b *Built, kinds map[string]int) int {
	n := 0
	mark := func(k string) { kinds["tie-"+k]++; n++ }
	for _, bus := range b.Net.Buses() {
		types := map[*a.SignalType]bool{}
		units := map[*a.SignalUnit]bool{}
		enums := map[*a.SignalEnum]bool{}
		var walk func(sigs []a.Signal)
		walk = func(sigs []a.Signal) {
			for _, s := range sigs {
				switch s.Kind() {
				case a.SignalKindStandard:
					ss, _ := s.ToStandard()
					types[ss.Type()] = true
					if ss.Unit() != nil {
						units[ss.Unit()] = true
					}
				case a.SignalKindEnum:
					es, _ := s.ToEnum()
					enums[es.Enum()] = true
				case a.SignalKindMultiplexer:
					mx, _ := s.ToMultiplexer()
					for _, g := range mx.GetSignalGroups() {
						walk(g)
					}
				}
			}
		}
		for _, ni := range bus.NodeInterfaces() {
			ids := map[uint32]int{}
			for _, m := range ni.SentMessages() {
				walk(m.Signals())
				ids[uint32(m.ID())]++
			}
			for _, c := range ids {
				if c > 1 {
					mark("message-id")
				}
			}
		}
		sz, tn, un, en := map[int]int{}, map[string]int{}, map[string]int{}, map[string]int{}
		for t := range types {
			sz[t.Size()]++
			tn[t.Name()]++
		}
		for u := range units {
			un[u.Name()]++
		}
		for e := range enums {
			en[e.Name()]++
		}
		for _, c := range sz {
			if c > 1 {
				mark("type-size")
			}
		}
		for _, c := range tn {
			if c > 1 {
				mark("type-name")
			}
		}
		for _, c := range un {
			if c > 1 {
				mark("unit-name")
			}
		}
		for _, c := range en {
			if c > 1 {
				mark("enum-name")
			}
		}
		if len(enums) >= 2 {
			kinds["bus-with-2+-enums"]++
		}
	}
	return n
}

func main() {
	seed, _ := strconv.ParseUint(os.Getenv("VERIF_SEED"), 10, 64)
	tier := os.Getenv("VERIF_TIER")
	out := os.Getenv("VERIF_OUT")
	n, reps := 60, 25
	if tier == "thorough" {
		n, reps = 1000, 50
	}
	if v := os.Getenv("VERIF_N"); v != "" {
		n, _ = strconv.Atoi(v)
	}
	if v := os.Getenv("VERIF_REPS"); v != "" {
		reps, _ = strconv.Atoi(v)
	}
	only := -1
	if v := os.Getenv("VERIF_CASE"); v != "" {
		only, _ = strconv.Atoi(v)
	}
	envProcs := runtime.GOMAXPROCS(0)
	kinds := map[string]int{}
	fails := map[string]string{}
	failSize := map[string]int{}
	fail := func(kind string, size, i int, detail string) {
		if old, ok := failSize[kind]; !ok || size < old {
			failSize[kind] = size
			fails[kind] = fmt.Sprintf("%d ## %s", i, detail)
		}
	}
	df, err := os.Create(out + ".digest")
	if err != nil {
		panic(err)
	}
	dw := bufio.NewWriter(df)
	cf, _ := os.Create(out)
	cw := bufio.NewWriter(cf)
	evals, nontrivial, loadFailed, reloadDone, rebuildDone, netFiles, histories, interleaves, boundaries, sharedWrites, coldFiles, extremeEnums := 0, 0, 0, 0, 0, 0, 0, 0, 0, 0, 0, 0
	foreignActs := 0
	scratch := os.Getenv("VERIF_SCRATCH")
	if scratch == "" {
		scratch = filepath.Dir(out)
	}
	distinct := map[[32]byte]bool{}
	casesWritten := 0
	var samples []string
	for i := 0; i < n; i++ {
		r := &rng{s: seed*7919 + uint64(i)}
		opts := genOpts{Ties: i%5 != 4, MaxDepth: 1 + i%3, Collide: i%2 == 0, CaseTwin: i%3 != 2, Clones: i%4 == 1}
		if i%3 == 1 { // 1..9 buses for ExportNetwork
			opts.Buses = 1 + (i/3)%9
		}
		sp := genSpec(r, opts)
		if i%8 == 5 {
			addDeepChain(sp, r, 3+(i/8)%3)
		}
		if only >= 0 && i != only {
			continue
		}
		b0 := build(sp, nil)
		if len(b0.Errs) > 0 {
			kinds["build-error"]++
			if only >= 0 {
				fmt.Println("build errors:", b0.Errs)
			}
			continue
		}
		o0 := export(b0.Net)
		size := len(o0.md)
		if o0.err != "" {
			fail("export-failed", size, i, o0.err)
		}
		ties := tieKinds(b0, kinds)
		h := sha256.Sum256([]byte(o0.md + strings.Join(o0.dbc, "\x00")))
		if !distinct[h] {
			distinct[h] = true
			if ties > 0 {
				nontrivial++
			}
		}
		// A: repetitions in this process, cycling GOMAXPROCS
		for k := 1; k < reps; k++ {
			runtime.GOMAXPROCS([]int{1, 4, 16}[k%3])
			ok := export(b0.Net)
			evals++
			if s, d := diff(o0, ok, false); s != "" {
				fail("repeat-"+s, size, i, fmt.Sprintf("repetition %d of the unchanged model differs: %s", k, d))
				break
			}
		}
		runtime.GOMAXPROCS(envProcs)
		// B: permuted construction order, fresh ids
		idTies := idKeyedTies(sp)
		if idTies {
			// id-keyed ties on a model built twice: the order of same-named attributes / receivers
			// follows the random entity ids (build_order_ids_refuted); reported under one signature
			// of its own (an open known finding), never mixed with the other rebuild failures
			kinds["id-keyed-ties"]++
			b1 := build(sp, &rng{s: seed ^ uint64(i*31+1)})
			if len(b1.Errs) == 0 {
				o1 := export(b1.Net)
				evals++
				if s, d := diff(o0, o1, true); s != "" {
					kinds["id-keyed-ties-rebuild-differs"]++
					fail("rebuild-id-keyed-ties", size, i, fmt.Sprintf("two builds of a specification with same-named attributes on one entity / same-named receivers export differently (%s): %s", s, d))
				}
			}
		} else {
			for k := 0; k < 2; k++ {
				b1 := build(sp, &rng{s: seed ^ uint64(i*31+k+1)})
				if len(b1.Errs) > 0 {
					kinds["rebuild-error"]++
					continue
				}
				o1 := export(b1.Net)
				evals++
				rebuildDone++
				if s, d := diff(o0, o1, true); s != "" {
					fail("rebuild-"+s, size, i, fmt.Sprintf("same specification built in a permuted order exports differently: %s", d))
					break
				}
			}
		}
		// C: reload of the permuted save (same entity ids)
		m1, err1 := load(o0.wire)
		if err1 != nil {
			loadFailed++
			kinds["load-failed"]++
		} else {
			l1 := export(m1)
			for k := 0; k < 2; k++ {
				pw, err := permuteWire(o0.wire, &rng{s: seed ^ uint64(i*131+k+7)})
				if err != nil {
					continue
				}
				m2, err2 := load(pw)
				if err2 != nil {
					loadFailed++
					kinds["load-failed-permuted"]++
					continue
				}
				l2 := export(m2)
				evals++
				reloadDone++
				if s, d := diff(l1, l2, false); s != "" {
					fail("reload-"+s, size, i, fmt.Sprintf("the saved model loaded from a permuted file exports differently: %s", d))
					break
				}
			}
		}
		// D: ExportNetwork, one file per bus, under GOMAXPROCS 1,2,3,4,8,16
		kinds[fmt.Sprintf("buses-%d", len(sp.Buses))]++
		if o0.err == "" {
			s, d, cnt := checkExportNetwork(b0.Net, o0.dbc, scratch, fmt.Sprintf("c%d", i))
			evals += cnt
			netFiles += cnt
			if s != "" {
				fail(s, size, i, d)
			}
		}
		// H: one writer shared by the three encodings
		if s, d, cnt := checkSharedWriter(b0.Net); true {
			evals += cnt
			sharedWrites += cnt
			if s != "" {
				fail(s, size, i, d)
			}
		}
		// G: boundary field values injected into the save, reloaded, saved / exported twice
		if s, d, cnt, lf := checkBoundary(o0.wire, &rng{s: seed ^ uint64(i*53+11)}); true {
			evals += cnt
			boundaries += cnt
			loadFailed += lf
			if s != "" {
				fail(s, size, i, d)
			}
		}
		// F: formats interleaved on one model: an export must not change a later export of another format
		if s, d, cnt := checkInterleave(sp, idTies); true {
			evals += cnt
			interleaves += cnt
			if s != "" {
				fail(s, size, i, d)
			}
		}
		// K: unrelated imports / loads / exports between two exports of the unchanged model
		if o0.err == "" {
			s, d, cnt := checkForeignActivity(b0.Net, nil, &rng{s: seed ^ uint64(i*389+17)}, kinds)
			evals += cnt
			foreignActs += cnt
			if s != "" {
				fail(s, size, i, d)
			}
		}
		// E: histories with reads interleaved
		hr := checkHistory(sp, seed^uint64(i*977+3), idTies)
		evals += hr.compared
		histories += hr.compared
		for k, v := range hr.applied {
			kinds["mutation-"+strings.ReplaceAll(k, " ", "_")] += v
		}
		if hr.kind != "" {
			fail(hr.kind, size, i, hr.detail)
		}
		if hr.final != nil && hr.kind == "" && hr.out.err == "" {
			writeCase(cw, 1000000+i, sp, hr.final, hr.out)
			casesWritten++
		}
		// digest of the id-free outputs for the comparison across processes (GOMAXPROCS env)
		if !idTies {
			hh := sha256.New()
			for _, d := range o0.dbc {
				hh.Write([]byte(d))
				hh.Write([]byte{0})
			}
			hh.Write([]byte(o0.md))
			hh.Write([]byte{0})
			hh.Write(canonicalWire(o0.wire))
			fmt.Fprintf(dw, "%d %s\n", i, hex.EncodeToString(hh.Sum(nil)))
		}
		writeCase(cw, i, sp, b0, o0)
		casesWritten++
		if len(samples) < 2 && ties > 0 {
			samples = append(samples, fmt.Sprintf("case %d: %d buses, %d types, %d enums, %d attrs, ties=%d, idTies=%v", i, len(sp.Buses), len(sp.Types), len(sp.Enums), len(sp.Attrs), ties, idTies))
		}
		if only >= 0 {
			for bi, d := range o0.dbc {
				fmt.Printf("---- DBC bus %d\n%s\n", bi, d)
			}
			fmt.Printf("---- Markdown\n%s\n", o0.md)
		}
	}
	// I: cold ExportNetwork (not tied to a generated case)
	if only < 0 {
		trials := 6
		if tier == "thorough" {
			trials = 40
		}
		s, d, cnt := checkColdExportNetwork(scratch, trials)
		evals += cnt
		coldFiles = cnt
		if s != "" {
			fail(s, 0, n, d)
		}
		// J: enum value indexes over the whole int range
		s, d, cnt = checkExtremeEnumIndexes(8)
		evals += cnt
		extremeEnums = cnt
		if s != "" {
			fail(s, 0, n, d)
		}
	}
	dw.Flush()
	df.Close()
	fmt.Fprintf(cw, "END %d\n", casesWritten)
	cw.Flush()
	cf.Close()
	if mf, err := os.Create(out + ".mut"); err == nil {
		mf.WriteString(mutOut.String())
		fmt.Fprintf(mf, "ENDMUT %d\n", mutTriples)
		mf.Close()
	}
	sf, _ := os.Create(out + ".summary")
	fmt.Fprintf(sf, "muttriples %d\n", mutTriples)
	fmt.Fprintf(sf, "written %d\n", casesWritten)
	fmt.Fprintf(sf, "cases %d\nevaluations %d\nnontrivial %d\ndistinct %d\nloadfailed %d\nreloads %d\nrebuilds %d\ngomaxprocs %d\nreps %d\nnetworkfiles %d\nhistories %d\ninterleaves %d\nboundaries %d\nsharedwrites %d\ncoldfiles %d\nextremeenums %d\nforeignacts %d\n",
		n, evals, nontrivial, len(distinct), loadFailed, reloadDone, rebuildDone, envProcs, reps, netFiles, histories, interleaves, boundaries, sharedWrites, coldFiles, extremeEnums, foreignActs)
	keys := make([]string, 0, len(kinds))
	for k := range kinds {
		keys = append(keys, k)
	}
	sort.Strings(keys)
	for _, k := range keys {
		fmt.Fprintf(sf, "hist %s %d\n", k, kinds[k])
	}
	fk := make([]string, 0, len(fails))
	for k := range fails {
		fk = append(fk, k)
	}
	sort.Strings(fk)
	for _, k := range fk {
		fmt.Fprintf(sf, "PROPFAIL %s %s\n", k, strings.ReplaceAll(fails[k], "\n", " "))
	}
	for _, s := range samples {
		fmt.Fprintf(sf, "sample %s\n", s)
	}
	sf.Close()
}
