// Markdown back-parser (rendered text -> block structure), as in props/C16/harness.
package main

import (
	"encoding/hex"
	"fmt"
	"strings"
)

type Block struct {
	Kind   byte // 'H' 'P' 'R' 'B' 'T'
	Level  int
	Text   string
	Header []string
	Rows   [][]string
}

// escCell: what a table cell must look like for the text s ('|' escaped, line breaks as <br>).
func escCell(s string) string {
	s = strings.ReplaceAll(s, "|", "\\|")
	s = strings.ReplaceAll(s, "\r\n", "<br>")
	s = strings.ReplaceAll(s, "\n", "<br>")
	return strings.ReplaceAll(s, "\r", "<br>")
}

// splitRow splits a rendered table line at the pipes that are not escaped; cells keep their
// escaped form.
func splitRow(line string) []string {
	line = strings.TrimSpace(line)
	line = strings.TrimPrefix(line, "|")
	if strings.HasSuffix(line, "|") && !strings.HasSuffix(line, "\\|") {
		line = strings.TrimSuffix(line, "|")
	}
	var parts []string
	cur := strings.Builder{}
	for i := 0; i < len(line); i++ {
		if line[i] == '\\' && i+1 < len(line) && line[i+1] == '|' {
			cur.WriteString("\\|")
			i++
			continue
		}
		if line[i] == '|' {
			parts = append(parts, strings.TrimSpace(cur.String()))
			cur.Reset()
			continue
		}
		cur.WriteByte(line[i])
	}
	parts = append(parts, strings.TrimSpace(cur.String()))
	return parts
}

// parseMarkdown turns the rendered document into blocks.  Lines made of blanks only (the
// library's LF marker and the empty line after a table) carry no structure and are skipped.
func parseMarkdown(text string) []Block {
	var res []Block
	lines := strings.Split(text, "\n")
	for i := 0; i < len(lines); i++ {
		ln := lines[i]
		switch {
		case ln == "  ":
			res = append(res, Block{Kind: 'L'}) // Markdown.LF(): a blank line for CommonMark
		case strings.TrimSpace(ln) == "":
		case ln == "---":
			res = append(res, Block{Kind: 'R'})
		case strings.HasPrefix(ln, "#"):
			n := 0
			for n < len(ln) && ln[n] == '#' {
				n++
			}
			res = append(res, Block{Kind: 'H', Level: n, Text: strings.TrimPrefix(ln[n:], " ")})
		case strings.HasPrefix(ln, "- "):
			res = append(res, Block{Kind: 'B', Text: ln[2:]})
		case strings.HasPrefix(ln, "|"):
			t := Block{Kind: 'T', Header: splitRow(ln)}
			j := i + 1
			if j < len(lines) && strings.HasPrefix(lines[j], "|-") {
				j++
			}
			for j < len(lines) && strings.HasPrefix(lines[j], "|") {
				t.Rows = append(t.Rows, splitRow(lines[j]))
				j++
			}
			i = j - 1
			res = append(res, t)
		default:
			res = append(res, Block{Kind: 'P', Text: ln})
		}
	}
	return res
}


func hx(s string) string { return "x" + hex.EncodeToString([]byte(s)) }

func dumpBlocks(bs []Block) string {
	w := &strings.Builder{}
	for _, b := range bs {
		switch b.Kind {
		case 'H':
			fmt.Fprintf(w, "H %d %s\n", b.Level, hx(b.Text))
		case 'P':
			fmt.Fprintf(w, "P %s\n", hx(b.Text))
		case 'B':
			fmt.Fprintf(w, "B %s\n", hx(b.Text))
		case 'R':
			fmt.Fprintf(w, "R\n")
		case 'L':
			fmt.Fprintf(w, "L\n")
		case 'T':
			fmt.Fprintf(w, "T %d", len(b.Header))
			for _, c := range b.Header {
				fmt.Fprintf(w, " %s", hx(c))
			}
			fmt.Fprintf(w, " %d", len(b.Rows))
			for _, r := range b.Rows {
				fmt.Fprintf(w, " %d", len(r))
				for _, c := range r {
					fmt.Fprintf(w, " %s", hx(c))
				}
			}
			fmt.Fprintf(w, "\n")
		}
	}
	return w.String()
}

