package main

import (
	"bytes"
	"fmt"
	"os"
	"path/filepath"
	"runtime"
	"sync"

	a "github.com/squadracorsepolito/acmelib"
)

// H  SaveNetwork with ONE writer shared by several encodings: the stream must be the encodings one
// after the other (wire, JSON, text - the order of the arguments), whatever GOMAXPROCS is.
type lockedBuffer struct {
	mu  sync.Mutex
	buf bytes.Buffer
}

func (l *lockedBuffer) Write(p []byte) (int, error) {
	l.mu.Lock()
	defer l.mu.Unlock()
	return l.buf.Write(p)
}

func checkSharedWriter(net *a.Network) (string, string, int) {
	var w, j, t bytes.Buffer
	if err := a.SaveNetwork(net, a.SaveEncodingWire|a.SaveEncodingJSON|a.SaveEncodingText, &w, &j, &t); err != nil {
		return "", "", 0
	}
	want := append(append(append([]byte{}, w.Bytes()...), j.Bytes()...), t.Bytes()...)
	n := 0
	for _, procs := range []int{1, 4, 16} {
		prev := runtime.GOMAXPROCS(procs)
		for k := 0; k < 3; k++ {
			sh := &lockedBuffer{}
			err := a.SaveNetwork(net, a.SaveEncodingWire|a.SaveEncodingJSON|a.SaveEncodingText, sh, sh, sh)
			n++
			if err != nil || !bytes.Equal(sh.buf.Bytes(), want) {
				runtime.GOMAXPROCS(prev)
				return "save-shared-writer-order", fmt.Sprintf("GOMAXPROCS=%d: SaveNetwork(wire|json|text) into one shared writer (err=%v) does not produce wire, JSON, text one after the other (%d bytes, want %d)", procs, err, sh.buf.Len(), len(want)), n
			}
		}
		runtime.GOMAXPROCS(prev)
	}
	return "", "", n
}

// I  ExportNetwork as the FIRST read of a freshly built network whose buses share one large enum:
// the files written by the concurrent workers must equal ExportBus of each bus.
func checkColdExportNetwork(scratch string, trials int) (string, string, int) {
	n := 0
	for trial := 0; trial < trials; trial++ {
		net := a.NewNetwork(fmt.Sprintf("cold%d", trial))
		enum := a.NewSignalEnum("shared")
		const nv = 3000
		for i := nv - 1; i >= 0; i-- { // inserted in descending index order
			if err := enum.AddValue(a.NewSignalEnumValue(fmt.Sprintf("v%d", i), i)); err != nil {
				return "", "", n
			}
		}
		var buses []*a.Bus
		// all buses SHARE one custom CAN-ID builder and carry many messages: the CAN-IDs in the files
		// must be those ExportBus computes, whatever the workers do concurrently
		shared := a.NewCANIDBuilder("shared builder").UseNodeID(0, 5).UseMessageID(5, 10).UseMessagePriority(20)
		for bi := 0; bi < 6; bi++ {
			bus := a.NewBus(fmt.Sprintf("b%d", bi))
			bus.SetCANIDBuilder(shared)
			node := a.NewNode(fmt.Sprintf("n%d", bi), a.NodeID(bi+1), 1)
			ni, _ := node.GetInterface(0)
			msg := a.NewMessage(fmt.Sprintf("m%d", bi), a.MessageID(bi+1), 8)
			sig, err := a.NewEnumSignal(fmt.Sprintf("s%d", bi), enum)
			if err != nil || bus.AddNodeInterface(ni) != nil || ni.AddSentMessage(msg) != nil || msg.AppendSignal(sig) != nil || net.AddBus(bus) != nil {
				return "", "", n
			}
			for k := 0; k < 80; k++ {
				extra := a.NewMessage(fmt.Sprintf("x%d_%d", bi, k), a.MessageID(100+k*7+bi), 1+k%8)
				extra.SetPriority(a.MessagePriority(k % 4))
				if ni.AddSentMessage(extra) != nil {
					return "", "", n
				}
			}
			buses = append(buses, bus)
		}
		procs := []int{8, 16, 4}[trial%3]
		prev := runtime.GOMAXPROCS(procs)
		base := filepath.Join(scratch, fmt.Sprintf("cold-%d", trial))
		err := func() (err error) {
			defer func() {
				if r := recover(); r != nil {
					err = fmt.Errorf("panic: %v", r)
				}
			}()
			return a.ExportNetwork(net, base) // the first read of the enum
		}()
		runtime.GOMAXPROCS(prev)
		if err != nil {
			os.RemoveAll(base)
			return "exportnetwork-cold-error", err.Error(), n
		}
		for bi, bus := range net.Buses() {
			var sb bytes.Buffer
			a.ExportBus(&sb, bus)
			data, rerr := os.ReadFile(filepath.Join(base, clearSp(net.Name()), clearSp(bus.Name())+".dbc"))
			n++
			if rerr != nil || !bytes.Equal(data, sb.Bytes()) {
				p, q := firstDiffLine(sb.String(), string(data))
				os.RemoveAll(base)
				if len(p) > 120 {
					p = p[:120]
				}
				if len(q) > 120 {
					q = q[:120]
				}
				return "exportnetwork-cold-differs-" + dbcSection(p), fmt.Sprintf("GOMAXPROCS=%d: ExportNetwork as the first read of a fresh network (6 buses sharing one enum of %d values and one CAN-ID builder, 81 messages each): file of bus %d differs from ExportBus: %q vs %q (%v)", procs, nv, bi, p, q, rerr), n
			}
		}
		_ = buses
		os.RemoveAll(base)
	}
	return "", "", n
}
