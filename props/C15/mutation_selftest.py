"""Mutation self-test for C15 / C16 (development aid, not a registered command).
Applies small semantic mutants to a scratch worktree of /repo (created under /tmp, removed at the
end), checks that each still passes `go test ./...` and that `./check Cxx --tier quick` reports it.
Usage: python3 props/C15/mutation_selftest.py [name-prefix ...]"""
import subprocess, sys, os, json
WT='/tmp/wt/mut-C15C16'
ENV=dict(os.environ, GOFLAGS='-mod=mod', GOPROXY='off')
def sh(cmd, cwd=None, env=None):
    p=subprocess.run(cmd, shell=True, cwd=cwd, env=env, stdout=subprocess.PIPE, stderr=subprocess.STDOUT)
    return p.returncode, p.stdout.decode()
M=[
 # (name, prop, file, old, new)
 ("C16-m1 enum row lacks the unit cell", "C16", "md_exporter.go",
  '	resRow = append(resRow, fmt.Sprintf("%d", sigEnum.maxIndex))\n	resRow = append(resRow, "-")\n', '	resRow = append(resRow, fmt.Sprintf("%d", sigEnum.maxIndex))\n'),
 ("C16-m2 enum listed once per referencing signal", "C16", "md_exporter.go",
  '	addOrderedRef(e.sigEnums, &e.sigEnumOrder, sigEnum.entityID, sigEnum)\n', '	e.sigEnumOrder = append(e.sigEnumOrder, sigEnum)\n'),
 ("C16-m3 rows of groups skipped at depth >= 2", "C16", "md_exporter.go",
  '		for _, tmpSig := range group {\n			sigRows := e.exportSignal(tmpSig)', '		for _, tmpSig := range group {\n			if muxSig.parentMuxSig != nil {\n				continue\n			}\n			sigRows := e.exportSignal(tmpSig)'),
 ("C16-m4 NodeInterface.String dereferences a nil parent bus", "C16", "node_iterface.go",
  '	b.WriteString(fmt.Sprintf("%snumber: %d\\n", tabStr, ni.number))\n', '	b.WriteString(fmt.Sprintf("%snumber: %d on %s\\n", tabStr, ni.number, ni.parentBus.name))\n'),
 ("C16-m5 relative instead of absolute start bit in the row", "C16", "md_exporter.go",
  'sigRow = append(sigRow, fmt.Sprintf("%d", sig.GetStartBit()))', 'sigRow = append(sigRow, fmt.Sprintf("%d", sig.GetRelativeStartPos()))'),
 ("C16-m6 message heading at level 3", "C16", "md_exporter.go",
  '	e.w.H4(msg.name)\n', '	e.w.H3(msg.name)\n'),
 ("C16-m7 unit appendix lists every unit use", "C16", "md_exporter.go",
  '		addOrderedRef(e.sigUnits, &e.sigUnitOrder, sigUnit.entityID, sigUnit)\n', '		e.sigUnitOrder = append(e.sigUnitOrder, sigUnit)\n'),
 ("C15-n1 Buses() not sorted", "C15", "network.go",
  '		return strings.Compare(a.name, b.name)\n	})\n	return busSlice', '		return len(a.name) - len(a.name)\n	})\n	return busSlice'),
 ("C15-n2 SentMessages compared by id only", "C15", "node_iterface.go",
  '	if a.id != b.id {\n		return int(a.id) - int(b.id)\n	}\n	if c := strings.Compare(a.name, b.name); c != 0 {\n		return c\n	}\n	return strings.Compare(a.entityID.String(), b.entityID.String())',
  '	return int(a.id) - int(b.id)'),
 ("C15-n3 DBC value tables from the map again", "C15", "exporter.go",
  '	for _, sigEnum := range e.sigEnumOrder {', '	for _, sigEnum := range e.sigEnums {'),
 ("C15-n4 attribute tie-break removed", "C15", "entity.go",
  '		if c := strings.Compare(a.attribute.Name(), b.attribute.Name()); c != 0 {\n			return c\n		}\n		return strings.Compare(a.attribute.EntityID().String(), b.attribute.EntityID().String())',
  '		return strings.Compare(a.attribute.Name(), b.attribute.Name())'),
 ("C15-n5 saver node comparator wraps on uint32", "C15", "saver.go",
  'return cmp.Compare(a.id, b.id)', 'return cmp.Compare(int(a.id-b.id), 0)'),
 ("C15-n6 Receivers() not sorted", "C15", "message.go",
  '		if c := strings.Compare(a.node.name, b.node.name); c != 0 {\n			return c\n		}\n		return strings.Compare(a.node.entityID.String(), b.node.entityID.String())\n	})\n', '		return 0\n	})\n'),
 ("C15-n7 enum Values() not sorted", "C15", "signal_enum.go",
  'func(a *SignalEnumValue, b *SignalEnumValue) int { return a.index - b.index }', 'func(a *SignalEnumValue, b *SignalEnumValue) int { return 0 }'),
 ("C15-n8 Markdown types sorted descending", "C15", "md_exporter.go",
  'func(a, b *SignalType) int { return a.size - b.size }', 'func(a, b *SignalType) int { return b.size - a.size }'),
 ("C15-n9 saver attributes from the map again", "C15", "saver.go",
  '	for _, att := range s.attributeOrder {', '	for _, att := range s.refAttributes {'),
]
only = sys.argv[1:]
if not os.path.exists(WT):
    sh('git -C /repo worktree add --detach %s main' % WT)
res=[]
for name, prop, f, old, new in M:
    if only and not any(name.startswith(o) for o in only): continue
    sh('git checkout -q .', cwd=WT)
    p=os.path.join(WT,f); s=open(p).read()
    if s.count(old)!=1:
        res.append((name,'PATCH-FAILED %d'%s.count(old),'')); continue
    open(p,'w').write(s.replace(old,new))
    rc,out=sh('go build ./... && go vet . 2>&1 | grep -v "^#" | head -3; go test -count=1 ./... 2>&1 | tail -6', cwd=WT, env=ENV)
    tests='pass' if ('FAIL' not in out and 'ok  \tgithub.com/squadracorsepolito/acmelib\t' in out) else 'TESTS-FAIL: '+out[-300:]
    rc,out=sh('./check %s --tier quick 2>&1 | grep -E "^VIOLATION|^PASS|^FAIL|^KNOWN" | cut -c1-160' % prop, cwd='/verif', env=dict(os.environ, VERIF_REPO=WT))
    verdict = 'CAUGHT' if 'VIOLATION' in out else 'MISSED'
    sigs=[l.split('replay=')[1].split('/')[-1].replace('.json','').replace(prop+'-','') + (' (no-failing-input)' if 'no-failing-input-found' in l else '') for l in out.split('\n') if l.startswith('VIOLATION')]
    res.append((name,tests,verdict+': '+', '.join(sigs[:6])))
    print(name,'|',tests,'|',verdict, sigs[:6], flush=True)
sh('git checkout -q .', cwd=WT)
sh('git -C /repo worktree remove --force %s' % WT)
