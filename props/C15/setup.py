import os
import vlib


def setup():
    here = os.path.dirname(os.path.abspath(__file__))
    vlib.build_ocaml_driver("c15_driver", os.path.join(vlib.COQ, "extracted"),
                            os.path.join(here, "driver", "c15_driver.ml"), only=["c15_model"])
