"""C16 — human-readable exports succeed and list every entity.
Proof: coq/Properties/C16.v over coq/C16/Model.v (model of md_exporter.go).  Tie: the Go harness
(props/C16/harness, public API only) builds generated networks, exports them with
ExportToMarkdown, parses the rendered text back into blocks and (a) evaluates the property
clauses directly against the implementation's getters, (b) calls String() on every entity under
recover(), (c) writes model input + observed blocks; the extracted Coq model recomputes the
blocks (props/C16/driver) and the two are compared block by block."""
import json
import os
import re
import vlib

PID = "C16"


def run_impl(ctx, case=None):
    hdir = vlib.go_harness_dir(ctx.prop_dir, ctx.scratch)
    exe = os.path.join(ctx.scratch, "c16h")
    env = vlib.goenv()
    rc, log = vlib.sh(["go", "build", "-o", exe, "."], cwd=hdir, env=env, timeout=900)
    if rc != 0:
        return rc, "harness build failed: " + log, None
    out = os.path.join(ctx.scratch, "cases.txt")
    env.update({"VERIF_OUT": out, "VERIF_SEED": str(ctx.seed), "VERIF_TIER": ctx.tier})
    if case is not None:
        env["VERIF_CASE"] = str(case)
    rc, log = vlib.sh([exe], cwd=hdir, env=env, timeout=2400)
    return rc, log, out


def parse_summary(path):
    d = {"hist": {}, "propfail": {}, "samples": []}
    if not os.path.exists(path):
        return d
    for line in open(path):
        p = line.rstrip("\n").split(" ", 2)
        if p[0] == "hist":
            d["hist"][p[1]] = int(p[2])
        elif p[0] == "PROPFAIL":
            d["propfail"][p[1]] = p[2]
        elif p[0] == "sample":
            d["samples"].append(line[7:].strip()[:1200])
        else:
            d[p[0]] = int(p[1])
    return d


def vm_cross_check(ctx, drv, out, n, extra_targets):
    """DESIGN 3.3: a sample of the cases with their OBSERVED outputs is written as Coq terms by the
    driver and the model is evaluated inside Coq with vm_compute; every check must be true."""
    ok, log = vlib.coq_build(targets=extra_targets)
    vfile = os.path.join(ctx.scratch, "sample_%s.v" % PID)
    vlib.sh([drv, out, "--coq", vfile, str(n)], timeout=1200)
    if not ok or not os.path.exists(vfile):
        return {"status": "not-run", "detail": (log or "")[-300:]}
    with vlib.Lock("coq"):
        rc, res = vlib.sh(["coqc", "-R", vlib.COQ, "Acme", vfile], cwd=ctx.scratch, timeout=1800)
    m = re.search(r"M =\s*\[([^\]]*)\]", res.replace("\n", " "))
    vals = [v.strip() for v in m.group(1).split(";")] if m and m.group(1).strip() else []
    good = rc == 0 and vals and all(v == "true" for v in vals)
    if not good:
        ctx.violation("%s-vm-compute-cross-check" % PID.lower(),
                      "the model evaluated inside Coq (vm_compute) disagrees with the observed outputs of the sample, or the sample "
                      "does not compile: %s" % res[-600:], {"coqc_output": res[-3000:]}, found_input=False)
    return {"status": "ok" if good else "FAILED", "checks": len(vals), "all_true": bool(good)}


def run(ctx):
    ctx.level = "proof"
    status = vlib.proof_status(PID, extra_targets=["C16/Extract.v"])
    ctx.proof_gate(status)
    exe = vlib.build_ocaml_driver("c16_driver", os.path.join(vlib.COQ, "extracted"),
                                  os.path.join(ctx.prop_dir, "driver", "c16_driver.ml"), only=["c16_model"])
    case = None
    if ctx.replay:
        r = json.load(open(ctx.replay))
        rep = r.get("replay") or {}
        case = rep.get("case")
        if rep.get("seed") is not None:
            ctx.seed = int(rep["seed"])
        if rep.get("tier"):
            ctx.tier = rep["tier"]
    rc, log, out = run_impl(ctx, case)
    if ctx.replay:
        print(log)
    if rc != 0 or out is None or not os.path.exists(out + ".summary"):
        m = re.search(r"panic: .*", log)
        ctx.violation("impl-run-failed", "harness run failed (%s): %s" % (m.group(0) if m else "rc=%d" % rc, log[-600:]),
                      {"log": log[-3000:]}, found_input=bool(m))
        ctx.coverage.update({"evaluations": 0})
        return
    summ = parse_summary(out + ".summary")
    rc2, mlog = vlib.sh([exe, out] + (["-v"] if ctx.replay else []), timeout=2400)
    m = re.search(r"CASES (\d+) MISMATCHES (\d+)", mlog)
    mism = int(m.group(2)) if m else -1
    ms = re.search(r"STRINGS (\d+)", mlog)
    strings_compared = int(ms.group(1)) if ms else 0
    if ctx.replay:
        print(mlog)
    for kind, d in sorted(summ["propfail"].items()):
        idx, detail = d.split(" ## ", 1)
        ctx.violation("c16-" + kind, "Markdown export / String() breaks C16 (%s): %s" % (kind, detail),
                      {"case": int(idx), "seed": ctx.seed, "tier": ctx.tier, "detail": detail,
                       "how": "./check C16 --replay <this file> regenerates case <case> from <seed> and prints the "
                              "rendered Markdown, the model input and the model's blocks"})
    # "new failures only": a model mismatch stays a violation unless a NEW (not known) property failure explains it
    new_fail = [k for k in summ["propfail"] if not any(o["signature"] == "c16-" + k for o in ctx.known_open)]
    dm = re.search(r"CASES (\d+) MISMATCHES", mlog)
    driver_cases = int(dm.group(1)) if dm else -1
    written = summ.get("written", -2)
    if (driver_cases != written or "DRIVER-ERROR" in mlog) and not new_fail:
        ctx.violation("c16-correspondence-count", "the driver compared %d cases, the harness wrote %d (%s): the correspondence was not "
                      "carried out on every case" % (driver_cases, written, (re.search(r"DRIVER-ERROR.*", mlog) or [""])[0] if "DRIVER-ERROR" in mlog else "no END marker problem"),
                      {"driver_output": mlog[:2000]}, found_input=False)
    if mism != 0 and not new_fail:
        first = re.search(r"MISMATCH case (\d+).*(\n  .*){0,3}", mlog)
        ctx.violation("c16-correspondence", "model and implementation disagree on %s case(s); the theorems of "
                      "Properties/C16.v no longer speak about this code: %s" % (mism, first.group(0) if first else mlog[-500:]),
                      {"case": int(first.group(1)) if first else None, "seed": ctx.seed, "tier": ctx.tier,
                       "driver_output": mlog[:3000]}, found_input=False)
    ctx.min_evaluations = 150 if ctx.tier == "quick" else 5000
    if strings_compared < 20 * max(1, written) and not ctx.replay and not new_fail:
        ctx.violation("c16-correspondence-count", "only %d String() renderings were compared for %d cases" % (strings_compared, written),
                      {"driver_output": mlog[-1500:]}, found_input=False)
    ctx.coverage.update({
        "evaluations": written if written >= 0 else 0,
        "cases_compared_by_driver": driver_cases,
        "distinct_nontrivial": summ.get("nontrivial", 0),
        "distinct_cases": summ.get("distinct", 0),
        "build_errors": summ.get("builderrors", 0),
        "max_multiplexing_depth": summ.get("maxdepth", 0),
        "rule": "cases = seeded random networks built through the public API (1-3 buses, nodes with 1-2 interfaces, 0-3 "
                "messages per interface incl. messages without signals, standard / enum / multiplexer signals nested up to "
                "depth 3 with fixed and multi-group children and empty groups, every 8th case with a guaranteed chain of 3-5 nested "
                "multiplexers around an enum with values, types / units / enums referenced only from deep nesting, units with empty "
                "symbol / empty name, enums without values, one attribute of every type (enum attributes built from value lists "
                "with repeats in every position, defaults and assigned values at the range bounds) on buses / nodes / messages / signals); each exported with ExportToMarkdown, parsed back and "
                "compared block-for-block with the Coq model, property clauses evaluated against the getters, String() called "
                "on every entity; enum-attribute values of 1- to 4-byte runes of every width in the non-ASCII cases; after all of "
                "that one kind of public-API edit per case (ClearSignalGroup of a non-empty group / RemoveSignal of a child / both / "
                "ClearAllSignalGroups, on every multiplexer) followed by a re-export judged by the same clauses and String() of the "
                "network, the messages and the edited multiplexers; non-trivial = distinct network (hash of the model input) that contains a multiplexer with "
                "children, an enum signal and a standard signal",
        "distribution": summ["hist"],
        "model_mismatches": mism,
        "string_renderings_compared_exactly": strings_compared,
        "property_predicate_failures": sorted(summ["propfail"]),
        "samples": summ["samples"][:2],
        "exhaustive": False,
        "trusted_base": [
            "Coq 8.16.1 kernel (coqc; coqchk in the thorough tier)",
            "axioms: none (Print Assumptions: Closed under the global context)" if not status["axioms"] else "axioms: " + ", ".join(status["axioms"]),
            "extraction (ExtrOcamlBasic + ExtrOcamlString, no Extract Constant/Inductive of our own) + OCaml 4.13.1 + props/C16/driver/c16_driver.ml",
            "Go harness props/C16/harness (generator, builder, Markdown back-parser, property predicates, String() caller)",
            "model coq/C16/Model.v is a hand-written restatement of md_exporter.go; tied by the block-level correspondence above",
            "not modelled: nao1215/markdown + tablewriter rendering (the harness parses the text back; names restricted to "
            "ASCII without '|', backtick, newline), strconv %g float text (supplied with the input), strings.ToLower beyond ASCII",
        ],
    })
    ctx.assumptions = ["names / descriptions contain no '|', backtick or newline and do not start like a Markdown block marker "
                       "(restriction of the comparison, not of the export call)",
                       "String() renderings are checked for totality (no panic, non-empty) by the run only"]
    if ctx.tier == "thorough":
        ctx.coverage["vm_compute_cross_check"] = vm_cross_check(ctx, exe, out, 6, ["C16/ModelChk.v"])
        ok, chk = vlib.coqchk(PID)
        ctx.coverage["coqchk"] = "ok" if ok else "FAILED"
        ctx.coverage["coqchk_tail"] = chk[-1500:]
        if not ok:
            ctx.proof_problems = (getattr(ctx, "proof_problems", []) or []) + ["coqchk failed: " + chk[-500:]]
