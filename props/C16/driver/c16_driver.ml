(* Correspondence driver for C16: reads the case file written by the Go harness (model input
   = the network as the exporter's getters present it; observed = the rendered Markdown parsed
   back into blocks), runs the extracted Coq model [md] and compares block by block. *)
module BZ = Z
open C16_model

let rec pos_of_z (n : BZ.t) : positive =
  if BZ.equal n BZ.one then XH
  else if BZ.testbit n 0 then XI (pos_of_z (BZ.shift_right n 1))
  else XO (pos_of_z (BZ.shift_right n 1))
let coqz_of_z (n : BZ.t) : z =
  if BZ.sign n = 0 then Z0 else if BZ.sign n > 0 then Zpos (pos_of_z n) else Zneg (pos_of_z (BZ.neg n))
let cz s = coqz_of_z (BZ.of_string s)
let cn s : n = let v = BZ.of_string s in if BZ.sign v = 0 then N0 else Npos (pos_of_z v)
let rec int_of_nat = function O -> 0 | S k -> 1 + int_of_nat k

let explode s = List.init (String.length s) (String.get s)
let implode l = String.init (List.length l) (List.nth l)
let implode l = let b = Buffer.create 16 in List.iter (Buffer.add_char b) l; Buffer.contents b

let unhex tok =
  (* "x" ^ hex *)
  let n = (String.length tok - 1) / 2 in
  String.init n (fun i -> Char.chr (int_of_string ("0x" ^ String.sub tok (1 + 2 * i) 2)))
let hx s = let b = Buffer.create 16 in Buffer.add_char b 'x';
  String.iter (fun c -> Buffer.add_string b (Printf.sprintf "%02x" (Char.code c))) s; Buffer.contents b
let cs tok = explode (unhex tok)

let toks line = List.filter (fun s -> s <> "") (String.split_on_char ' ' line)

(* ------------------------------------------------------------------ parsing one case *)
type state = { mutable lines : string list }
let peek st = match st.lines with [] -> None | l :: _ -> Some l
let pop st = match st.lines with [] -> failwith "eof" | l :: r -> st.lines <- r; l

let rec parse_sigs st types units enums : sig0 list =
  match peek st with
  | None -> []
  | Some l ->
    (match toks l with
     | "std" :: name :: desc :: rel :: ty :: un :: _ ->
       ignore (pop st);
       let u = if un = "-1" then None else Some (Hashtbl.find units (int_of_string un)) in
       let s = SStd (cs name, cs desc, cz rel, Hashtbl.find types (int_of_string ty), u) in
       s :: parse_sigs st types units enums
     | "enm" :: name :: desc :: rel :: size :: en :: _ ->
       ignore (pop st);
       let s = SEnum (cs name, cs desc, cz rel, cz size, Hashtbl.find enums (int_of_string en)) in
       s :: parse_sigs st types units enums
     | "mux" :: name :: desc :: rel :: gc :: gs :: _ ->
       ignore (pop st);
       let rec groups () =
         match toks (pop st) with
         | ["grp"] ->
           let g = parse_sigs st types units enums in
           (match toks (pop st) with ["endgrp"] -> () | _ -> failwith "endgrp expected");
           g :: groups ()
         | ["endmux"] -> []
         | _ -> failwith "grp/endmux expected" in
       let gl = groups () in
       let s = SMux (cs name, cs desc, cz rel, cz gc, cz gs, gl) in
       s :: parse_sigs st types units enums
     | _ -> [])

let parse_case st : net =
  let types = Hashtbl.create 8 and units = Hashtbl.create 8 and enums = Hashtbl.create 8 in
  let rec defs () =
    match peek st with
    | Some l ->
      (match toks l with
       | "typ" :: id :: name :: desc :: size :: kind :: sg :: mn :: mx :: sc :: off :: _ ->
         ignore (pop st);
         Hashtbl.replace types (int_of_string id)
           { st_id = cn id; st_name = cs name; st_desc = cs desc; st_size = cz size; st_kind = cs kind;
             st_signed = (sg = "1"); st_min = cs mn; st_max = cs mx; st_scale = cs sc; st_offset = cs off };
         defs ()
       | "unt" :: id :: name :: desc :: kind :: sym :: _ ->
         ignore (pop st);
         Hashtbl.replace units (int_of_string id)
           { su_id = cn id; su_name = cs name; su_desc = cs desc; su_kind = cs kind; su_symbol = cs sym };
         defs ()
       | "enu" :: id :: name :: desc :: mx :: nv :: rest ->
         ignore (pop st);
         let rec vals k r = if k = 0 then [] else
             match r with
             | vn :: vi :: vd :: r' -> { ev_name = cs vn; ev_index = cz vi; ev_desc = cs vd } :: vals (k - 1) r'
             | _ -> failwith "enum values" in
         Hashtbl.replace enums (int_of_string id)
           { se_id = cn id; se_name = cs name; se_desc = cs desc; se_maxindex = cz mx;
             se_values = vals (int_of_string nv) rest };
         defs ()
       | _ -> ())
    | None -> () in
  defs ();
  let name, desc = match toks (pop st) with
    | ["net"; n; d] -> cs n, cs d | _ -> failwith "net expected" in
  let rec buses () =
    match peek st with
    | Some l when (match toks l with "bus" :: _ -> true | _ -> false) ->
      (match toks (pop st) with
       | ["bus"; n; d; baud] ->
         let rec nifs () =
           match toks (pop st) with
           | ["nif"; nn; nd; nid] ->
             let rec msgs () =
               match toks (pop st) with
               | "msg" :: mn :: md :: stc :: canid :: mid :: size :: bo :: cyc :: nrecv :: recv ->
                 ignore nrecv;
                 let sigs = parse_sigs st types units enums in
                 (match toks (pop st) with ["endmsg"] -> () | _ -> failwith "endmsg expected");
                 { m_name = cs mn; m_desc = cs md; m_static = (stc = "1"); m_canid = cz canid; m_id = cz mid;
                   m_size = cz size; m_byteorder = cs bo; m_cycle = cz cyc; m_receivers = List.map cs recv;
                   m_sigs = sigs } :: msgs ()
               | ["endnif"] -> []
               | _ -> failwith "msg/endnif expected" in
             let ms = msgs () in
             { n_name = cs nn; n_desc = cs nd; n_id = cz nid; n_msgs = ms } :: nifs ()
           | ["endbus"] -> []
           | _ -> failwith "nif/endbus expected" in
         let nl = nifs () in
         { b_name = cs n; b_desc = cs d; b_baud = cz baud; b_nifs = nl } :: buses ()
       | _ -> failwith "bus line")
    | _ -> [] in
  let bl = buses () in
  (match toks (pop st) with ["endcase"] -> () | t -> failwith ("endcase expected, got " ^ String.concat " " t));
  { nt_name = name; nt_desc = desc; nt_buses = bl }

(* ------------------------------------------------------------------ printing blocks *)
let show_block = function
  | H (n, t) -> Printf.sprintf "H %d %s" (int_of_nat n) (hx (implode t))
  | Para t -> "P " ^ hx (implode t)
  | Bullet t -> "B " ^ hx (implode t)
  | Rule -> "R"
  | LF -> "L"
  | Table (h, rows) ->
    let b = Buffer.create 64 in
    Buffer.add_string b (Printf.sprintf "T %d" (List.length h));
    List.iter (fun c -> Buffer.add_string b (" " ^ hx (implode c))) h;
    Buffer.add_string b (Printf.sprintf " %d" (List.length rows));
    List.iter (fun r ->
        Buffer.add_string b (Printf.sprintf " %d" (List.length r));
        List.iter (fun c -> Buffer.add_string b (" " ^ hx (implode c))) r) rows;
    Buffer.contents b

(* a paragraph with line breaks is rendered as one line per text line *)
let show_lines b = match b with
  | Para t -> List.map (fun l -> "P " ^ hx l) (String.split_on_char '\n' (implode t))
  | _ -> [show_block b]

let readable line =
  String.concat " " (List.map (fun t -> if String.length t > 0 && t.[0] = 'x' && String.length t mod 2 = 1
                                 then (try "\"" ^ unhex t ^ "\"" with _ -> t) else t) (toks line))



(* ------------------------------------------------------------------ Coq terms for the vm_compute cross-check *)
let q s = let b = Buffer.create 16 in Buffer.add_char b '"';
  String.iter (fun c -> if c = '"' then Buffer.add_string b "\"\"" else Buffer.add_char b c) s;
  Buffer.add_char b '"'; Buffer.contents b
let qs l = q (implode l)
let rec z_of_pos' = function XH -> BZ.one | XO p -> BZ.shift_left (z_of_pos' p) 1 | XI p -> BZ.succ (BZ.shift_left (z_of_pos' p) 1)
let zc = function Z0 -> "0%Z" | Zpos p -> "(" ^ BZ.to_string (z_of_pos' p) ^ ")%Z" | Zneg p -> "(-" ^ BZ.to_string (z_of_pos' p) ^ ")%Z"
let nc = function N0 -> "0%N" | Npos p -> BZ.to_string (z_of_pos' p) ^ "%N"
let bc b = if b then "true" else "false"
let lst f l = "[" ^ String.concat "; " (List.map f l) ^ "]"
let opt f = function None -> "None" | Some x -> "(Some " ^ f x ^ ")"
let c_type t = Printf.sprintf "{| st_id := %s; st_name := %s; st_desc := %s; st_size := %s; st_kind := %s; st_signed := %s; st_min := %s; st_max := %s; st_scale := %s; st_offset := %s |}"
    (nc t.st_id) (qs t.st_name) (qs t.st_desc) (zc t.st_size) (qs t.st_kind) (bc t.st_signed) (qs t.st_min) (qs t.st_max) (qs t.st_scale) (qs t.st_offset)
let c_unit u = Printf.sprintf "{| su_id := %s; su_name := %s; su_desc := %s; su_kind := %s; su_symbol := %s |}"
    (nc u.su_id) (qs u.su_name) (qs u.su_desc) (qs u.su_kind) (qs u.su_symbol)
let c_enum e = Printf.sprintf "{| se_id := %s; se_name := %s; se_desc := %s; se_maxindex := %s; se_values := %s |}"
    (nc e.se_id) (qs e.se_name) (qs e.se_desc) (zc e.se_maxindex)
    (lst (fun v -> Printf.sprintf "{| ev_name := %s; ev_index := %s; ev_desc := %s |}" (qs v.ev_name) (zc v.ev_index) (qs v.ev_desc)) e.se_values)
let rec c_sig = function
  | SStd (n, d, r, ty, un) -> Printf.sprintf "(SStd %s %s %s %s %s)" (qs n) (qs d) (zc r) (c_type ty) (opt c_unit un)
  | SEnum (n, d, r, sz, en) -> Printf.sprintf "(SEnum %s %s %s %s %s)" (qs n) (qs d) (zc r) (zc sz) (c_enum en)
  | SMux (n, d, r, gc, gs, groups) -> Printf.sprintf "(SMux %s %s %s %s %s %s)" (qs n) (qs d) (zc r) (zc gc) (zc gs) (lst (lst c_sig) groups)
let c_msg m = Printf.sprintf "{| m_name := %s; m_desc := %s; m_static := %s; m_canid := %s; m_id := %s; m_size := %s; m_byteorder := %s; m_cycle := %s; m_receivers := %s; m_sigs := %s |}"
    (qs m.m_name) (qs m.m_desc) (bc m.m_static) (zc m.m_canid) (zc m.m_id) (zc m.m_size) (qs m.m_byteorder) (zc m.m_cycle) (lst qs m.m_receivers) (lst c_sig m.m_sigs)
let c_net n = Printf.sprintf "{| nt_name := %s; nt_desc := %s; nt_buses := %s |}" (qs n.nt_name) (qs n.nt_desc)
    (lst (fun b -> Printf.sprintf "{| b_name := %s; b_desc := %s; b_baud := %s; b_nifs := %s |}" (qs b.b_name) (qs b.b_desc) (zc b.b_baud)
             (lst (fun x -> Printf.sprintf "{| n_name := %s; n_desc := %s; n_id := %s; n_msgs := %s |}" (qs x.n_name) (qs x.n_desc) (zc x.n_id) (lst c_msg x.n_msgs)) b.b_nifs)) n.nt_buses)
let c_block_of_obs line = match toks line with
  | ["H"; n; t] -> Printf.sprintf "H %s %s" n (q (unhex t))
  | ["P"; t] -> "Para " ^ q (unhex t)
  | ["B"; t] -> "Bullet " ^ q (unhex t)
  | ["R"] -> "Rule"
  | ["L"] -> "LF"
  | "T" :: nc_ :: rest ->
    let rec take k l acc = if k = 0 then (List.rev acc, l) else match l with x :: r -> take (k - 1) r (x :: acc) | [] -> failwith "T" in
    let hdr, rest = take (int_of_string nc_) rest [] in
    let rec rows k l = if k = 0 then [] else
        match l with
        | w :: r -> let cells, r' = take (int_of_string w) r [] in cells :: rows (k - 1) r'
        | [] -> failwith "T rows" in
    let rws = match rest with nr :: r -> rows (int_of_string nr) r | [] -> [] in
    Printf.sprintf "Table %s %s" (lst (fun c -> q (unhex c)) hdr) (lst (lst (fun c -> q (unhex c))) rws)
  | _ -> failwith "block"
let c_ent e = Printf.sprintf "{| e_id := %s; e_kind := %s; e_name := %s; e_desc := %s; e_time := %s |}" (qs e.e_id) (qs e.e_kind) (qs e.e_name) (qs e.e_desc) (qs e.e_time)
let c_stype x = Printf.sprintf "{| ty_ent := %s; ty_kind := %s; ty_size := %s; ty_signed := %s; ty_min := %s; ty_max := %s; ty_scale := %s; ty_offset := %s; ty_refs := %s |}"
    (c_ent x.ty_ent) (qs x.ty_kind) (zc x.ty_size) (bc x.ty_signed) (qs x.ty_min) (qs x.ty_max) (qs x.ty_scale) (qs x.ty_offset) (zc x.ty_refs)
let c_sunit x = Printf.sprintf "{| un_ent := %s; un_kind := %s; un_symbol := %s; un_refs := %s |}" (c_ent x.un_ent) (qs x.un_kind) (qs x.un_symbol) (zc x.un_refs)
let c_senum x = Printf.sprintf "{| en_ent := %s; en_maxindex := %s; en_values := %s; en_refs := %s |}" (c_ent x.en_ent) (zc x.en_maxindex)
    (lst (fun v -> Printf.sprintf "{| va_ent := %s; va_index := %s |}" (c_ent v.va_ent) (zc v.va_index)) x.en_values) (zc x.en_refs)
let c_base b = Printf.sprintf "{| sb_ent := %s; sb_kind := %s; sb_sendtype := %s; sb_start := %s; sb_size := %s |}" (c_ent b.sb_ent) (qs b.sb_kind) (opt qs b.sb_sendtype) (zc b.sb_start) (zc b.sb_size)
let rec c_ssig = function
  | StrStd (b, ty, un) -> Printf.sprintf "(StrStd %s %s %s)" (c_base b) (c_stype ty) (opt c_sunit un)
  | StrEnum (b, en) -> Printf.sprintf "(StrEnum %s %s)" (c_base b) (c_senum en)
  | StrMux (b, h, gs) -> Printf.sprintf "(StrMux %s %s %s)" (c_base b) (bc h) (lst (lst c_ssig) gs)
let c_smsg m = Printf.sprintf "{| mg_ent := %s; mg_id := %s; mg_priority := %s; mg_size := %s; mg_cycle := %s; mg_delay := %s; mg_startdelay := %s; mg_sendtype := %s; mg_recv := %s; mg_sigs := %s |}"
    (c_ent m.mg_ent) (zc m.mg_id) (zc m.mg_priority) (zc m.mg_size) (zc m.mg_cycle) (zc m.mg_delay) (zc m.mg_startdelay) (opt qs m.mg_sendtype)
    (lst (fun r -> Printf.sprintf "{| rc_name := %s; rc_nodeid := %s; rc_eid := %s |}" (qs r.rc_name) (zc r.rc_nodeid) (qs r.rc_eid)) m.mg_recv) (lst c_ssig m.mg_sigs)
let c_snet n = Printf.sprintf "{| nw_ent := %s; nw_buses := %s |}" (c_ent n.nw_ent)
    (lst (fun b -> Printf.sprintf "{| bs_ent := %s; bs_baud := %s; bs_builder := {| bd_ent := %s; bd_ops := %s; bd_refs := %s |}; bs_nifs := %s |}"
             (c_ent b.bs_ent) (zc b.bs_baud) (c_ent b.bs_builder.bd_ent)
             (lst (fun o -> Printf.sprintf "{| op_kind := %s; op_from := %s; op_len := %s |}" (qs o.op_kind) (zc o.op_from) (zc o.op_len)) b.bs_builder.bd_ops) (zc b.bs_builder.bd_refs)
             (lst (fun x -> Printf.sprintf "{| ni_number := %s; ni_node := {| nd_ent := %s; nd_nodeid := %s |}; ni_sent := %s; ni_received := %s |}"
                      (zc x.ni_number) (c_ent x.ni_node.nd_ent) (zc x.ni_node.nd_nodeid) (lst c_smsg x.ni_sent) (lst c_smsg x.ni_received)) b.bs_nifs)) n.nw_buses)
let coq_buf = Buffer.create 4096
let coq_checks = ref []
let coq_budget = ref 0

(* ------------------------------------------------------------------ String() model *)
let ent = function
  | a :: b :: c :: d :: e :: rest -> ({ e_id = cs a; e_kind = cs b; e_name = cs c; e_desc = cs d; e_time = cs e }, rest)
  | _ -> failwith "entity"
let opt_send t = if t = "-" then None else Some (cs t)

let parse_stype st = match toks (pop st) with
  | "stype" :: r ->
    let e, r = ent r in
    (match r with
     | [k; sz; sg; mn; mx; sc; off; refs] ->
       { ty_ent = e; ty_kind = cs k; ty_size = cz sz; ty_signed = (sg = "1"); ty_min = cs mn; ty_max = cs mx;
         ty_scale = cs sc; ty_offset = cs off; ty_refs = cz refs }
     | _ -> failwith "stype fields")
  | _ -> failwith "stype expected"
let parse_sunit st = match toks (pop st) with
  | "sunit" :: r ->
    let e, r = ent r in
    (match r with
     | [k; sym; refs] -> { un_ent = e; un_kind = cs k; un_symbol = cs sym; un_refs = cz refs }
     | _ -> failwith "sunit fields")
  | _ -> failwith "sunit expected"
let parse_senum st = match toks (pop st) with
  | "senum" :: r ->
    let e, r = ent r in
    (match r with
     | mx :: refs :: nv :: rest ->
       let rec vals k r = if k = 0 then [] else
           let ve, r = ent r in
           (match r with i :: r' -> { va_ent = ve; va_index = cz i } :: vals (k - 1) r' | [] -> failwith "value index") in
       { en_ent = e; en_maxindex = cz mx; en_values = vals (int_of_string nv) rest; en_refs = cz refs }
     | _ -> failwith "senum fields")
  | _ -> failwith "senum expected"

let base_of r =
  let e, r = ent r in
  match r with
  | k :: snd :: start :: size :: rest ->
    ({ sb_ent = e; sb_kind = cs k; sb_sendtype = opt_send snd; sb_start = cz start; sb_size = cz size }, rest)
  | _ -> failwith "signal base"

let rec parse_ssigs st : ssig list =
  match peek st with
  | Some l ->
    (match toks l with
     | "sstd" :: r ->
       ignore (pop st);
       let b, r = base_of r in
       let ty = parse_stype st in
       let un = if r = ["1"] then Some (parse_sunit st) else None in
       let s = StrStd (b, ty, un) in s :: parse_ssigs st
     | "senm" :: r ->
       ignore (pop st);
       let b, _ = base_of r in
       let en = parse_senum st in
       let s = StrEnum (b, en) in s :: parse_ssigs st
     | "smux" :: r ->
       ignore (pop st);
       let b, r = base_of r in
       let rec groups () = match toks (pop st) with
         | ["grp"] ->
           let g = parse_ssigs st in
           (match toks (pop st) with ["endgrp"] -> () | _ -> failwith "endgrp");
           g :: groups ()
         | ["endmux"] -> []
         | _ -> failwith "grp/endmux" in
       let gl = groups () in
       let s = StrMux (b, (r = ["1"]), gl) in s :: parse_ssigs st
     | _ -> [])
  | None -> []

let parse_smsg st : string * smsg = match toks (pop st) with
  | "smsg" :: tag :: r ->
    let e, r = ent r in
    (match r with
     | id :: prio :: size :: cyc :: dl :: sdl :: snd :: nrecv :: rest ->
       let rec recvs k r = if k = 0 then [] else
           match r with
           | n :: nid :: eid :: r' -> { rc_name = cs n; rc_nodeid = cz nid; rc_eid = cs eid } :: recvs (k - 1) r'
           | _ -> failwith "srecv" in
       let rc = recvs (int_of_string nrecv) rest in
       let sigs = parse_ssigs st in
       (match toks (pop st) with ["endmsg"] -> () | _ -> failwith "endmsg (str)");
       (tag, { mg_ent = e; mg_id = cz id; mg_priority = cz prio; mg_size = cz size; mg_cycle = cz cyc; mg_delay = cz dl;
               mg_startdelay = cz sdl; mg_sendtype = opt_send snd; mg_recv = rc; mg_sigs = sigs })
     | _ -> failwith "smsg fields")
  | _ -> failwith "smsg expected"

let parse_snet st : snet =
  let e = match toks (pop st) with "snet" :: r -> fst (ent r) | _ -> failwith "snet expected" in
  let rec buses () = match toks (pop st) with
    | "sbus" :: r ->
      let be, r = ent r in
      (match r with
       | baud :: r ->
         let ce, r = ent r in
         (match r with
          | refs :: nops :: rest ->
            let rec ops k r = if k = 0 then [] else
                match r with
                | kd :: f :: l :: r' -> { op_kind = cs kd; op_from = cz f; op_len = cz l } :: ops (k - 1) r'
                | _ -> failwith "sop" in
            let bd = { bd_ent = ce; bd_ops = ops (int_of_string nops) rest; bd_refs = cz refs } in
            let rec nifs () = match toks (pop st) with
              | "snif" :: num :: r ->
                let ne, r = ent r in
                let nid = match r with [x] -> cz x | _ -> failwith "snif node id" in
                let rec msgs sent recv = match peek st with
                  | Some l when (match toks l with "smsg" :: _ -> true | _ -> false) ->
                    let tag, m = parse_smsg st in
                    if tag = "S" then msgs (m :: sent) recv else msgs sent (m :: recv)
                  | _ -> (List.rev sent, List.rev recv) in
                let sent, recv = msgs [] [] in
                (match toks (pop st) with ["endnif"] -> () | _ -> failwith "endnif (str)");
                { ni_number = cz num; ni_node = { nd_ent = ne; nd_nodeid = nid }; ni_sent = sent; ni_received = recv } :: nifs ()
              | ["endbus"] -> []
              | _ -> failwith "snif/endbus" in
            let nl = nifs () in
            { bs_ent = be; bs_baud = cz baud; bs_builder = bd; bs_nifs = nl } :: buses ()
          | _ -> failwith "sbus builder")
       | _ -> failwith "sbus baud")
    | ["endsnet"] -> []
    | _ -> failwith "sbus/endsnet" in
  let bl = buses () in
  { nw_ent = e; nw_buses = bl }

(* the renderings of every entity, in the preorder in which the harness observed them *)
let model_strings (n : snet) : (string * string) list =
  let acc = ref [] in
  let add k s = acc := (k, implode s) :: !acc in
  let rec sigs l = List.iter (fun s ->
      add "sig" (sig_string s);
      match s with
      | StrStd (_, ty, un) -> add "type" (type_string ty); (match un with Some u -> add "unit" (unit_string u) | None -> ())
      | StrEnum (_, en) -> add "enum" (enum_string en); List.iter (fun v -> add "value" (value_string v)) en.en_values
      | StrMux (_, _, gs) -> List.iter sigs gs) l in
  add "net" (net_string n);
  List.iter (fun b ->
      add "bus" (bus_string b); add "builder" (builder_string b.bs_builder);
      List.iter (fun x ->
          add "nif" (nif_string x); add "node" (node_string x.ni_node);
          List.iter (fun m -> add "msg" (msg_string m); sigs m.mg_sigs) x.ni_sent) b.bs_nifs) n.nw_buses;
  List.rev !acc

let str_compared = ref 0
let compare_strings idx st report =
  match peek st with
  | Some l when (match toks l with "snet" :: _ -> true | _ -> false) ->
    let n = parse_snet st in
    let rec obs () = match pop st with
      | "endstr" -> []
      | l -> (match toks l with
          | ["ostr"; k; t] -> (k, if t = "PANIC" then "<panic>" else unhex t) :: obs ()
          | _ -> failwith ("ostr expected: " ^ l)) in
    let observed = obs () in
    if !coq_budget > 0 then begin
      (match observed with
       | ("net", t) :: _ when t <> "<panic>" && String.length t < 15000 && List.length n.nw_ent.e_desc < 2000
                              && String.length (c_snet n) < 20000 ->
         (* bound: coqc overflows its default stack on one string literal of ~50 KB (round-6 long-text cases) *)
         decr coq_budget;
         Buffer.add_string coq_buf (Printf.sprintf "Definition s_%s : snet := %s.\nDefinition t_%s : string := %s.\n" idx (c_snet n) idx (q t));
         coq_checks := Printf.sprintf "check_string s_%s t_%s" idx idx :: !coq_checks
       | _ -> ())
    end;
    let model = model_strings n in
    if List.length observed <> List.length model then
      report (Printf.sprintf "String(): %d renderings observed, %d in the model" (List.length observed) (List.length model))
    else
      List.iter2 (fun (k1, o) (k2, m) ->
          incr str_compared;
          if k1 <> k2 then report (Printf.sprintf "String(): kind %s vs %s" k1 k2)
          else if o <> m then begin
            let ol = String.split_on_char '\n' o and ml = String.split_on_char '\n' m in
            let rec first i a b = match a, b with
              | x :: a', y :: b' -> if x = y then first (i + 1) a' b' else Printf.sprintf "line %d impl %S model %S" i x y
              | x :: _, [] -> Printf.sprintf "line %d impl %S model <none>" i x
              | [], y :: _ -> Printf.sprintf "line %d impl <none> model %S" i y
              | [], [] -> "" in
            report (Printf.sprintf "%s.String() differs: %s" k1 (first 0 ol ml))
          end) observed model
  | _ -> ()

let () =
  let ic = open_in Sys.argv.(1) in
  let verbose = Array.length Sys.argv > 2 && Sys.argv.(2) = "-v" in
  let coq_out = if Array.length Sys.argv > 4 && Sys.argv.(2) = "--coq" then (coq_budget := int_of_string Sys.argv.(4); Some Sys.argv.(3)) else None in
  let all = ref [] in
  (try while true do all := input_line ic :: !all done with End_of_file -> ());
  let st = { lines = List.rev !all } in
  let end_seen = ref false in
  let cases = ref 0 and bad = ref 0 in
  (try
     while st.lines <> [] do
       let idx = match toks (pop st) with
         | ["case"; i] -> i
         | ["END"; k] ->
           if st.lines <> [] then failwith "text after the END marker";
           if int_of_string k <> !cases then failwith (Printf.sprintf "END marker says %s cases, %d read" k !cases);
           end_seen := true; raise Exit
         | t -> failwith ("case expected: " ^ String.concat " " t) in
       let net = parse_case st in
       let obs_err = match toks (pop st) with ["obs"; e] -> e = "1" | _ -> failwith "obs expected" in
       let rec obs () = match pop st with "endobs" -> [] | l -> l :: obs () in
       let observed = obs () in
       incr cases;
       if !coq_budget > 0 && not obs_err && List.length observed < 400 && List.length net.nt_desc < 2000
          && not (List.exists (function Para t -> List.mem '\n' t | _ -> false) (blocks net)) then begin
         (* very long names / descriptions (5 KB per entity) make a term coqc cannot parse on its default stack:
            such cases stay in the extracted-model comparison and are left out of the vm_compute sample *)
         let dn = c_net net and dobs = lst c_block_of_obs observed in
         if String.length dn < 20000 && String.length dobs < 20000 then begin
           Buffer.add_string coq_buf (Printf.sprintf "Definition n_%s : net := %s.\nDefinition o_%s : list block := %s.\n" idx dn idx dobs);
           coq_checks := Printf.sprintf "check_md n_%s o_%s" idx idx :: !coq_checks
         end
       end;
       let model = md net in
       let model_lines = List.concat_map show_lines (blocks net) in
       let model_err = (match model with Ok _ -> false | Err -> true) in
       let report what =
         incr bad;
         if !bad <= 10 then begin
           Printf.printf "MISMATCH case %s: %s\n" idx what;
           let rec first i a b = match a, b with
             | x :: a', y :: b' -> if x = y then first (i + 1) a' b' else
                 Printf.printf "  block %d\n    impl : %s\n    model: %s\n" i (readable x) (readable y)
             | x :: _, [] -> Printf.printf "  block %d\n    impl : %s\n    model: <none>\n" i (readable x)
             | [], y :: _ -> Printf.printf "  block %d\n    impl : <none>\n    model: %s\n" i (readable y)
             | [], [] -> () in
           first 0 observed model_lines
         end in
       if model_err <> obs_err then report (Printf.sprintf "error result differs (impl %b, model %b)" obs_err model_err)
       else if observed <> model_lines then report "blocks differ";
       let str_bad = ref false in
       compare_strings idx st (fun what -> if not !str_bad then begin
           str_bad := true; incr bad;
           if !bad <= 10 then Printf.printf "MISMATCH case %s [string]: %s\n" idx what end);
       if verbose then List.iter (fun l -> print_endline ("  model: " ^ readable l)) model_lines
     done
   with Failure m -> Printf.printf "DRIVER-ERROR %s\n" m; incr bad
      | Exit -> ());
  if not !end_seen then begin Printf.printf "DRIVER-ERROR the case file has no END marker (truncated?)\n"; incr bad end;
  (match coq_out with
   | Some f ->
     let oc = open_out f in
     output_string oc "From Coq Require Import ZArith List String.\nFrom Acme.C16 Require Import Model ModelStr ModelChk.\nImport ListNotations.\nLocal Open Scope string_scope.\n";
     Buffer.output_buffer oc coq_buf;
     output_string oc (Printf.sprintf "Definition M := Eval vm_compute in [%s].\nPrint M.\n" (String.concat "; " (List.rev !coq_checks)));
     close_out oc
   | None -> ());
  Printf.printf "STRINGS %d\n" !str_compared;
  Printf.printf "CASES %d MISMATCHES %d\n" !cases !bad
