// Network specifications, their seeded generator and the builder that realises a
// specification through acmelib's public API.  (Shared verbatim by props/C15/harness.)
package main

import (
	"fmt"
	"math/bits"
	"strings"

	a "github.com/squadracorsepolito/acmelib"
)

// ---------------------------------------------------------------------------------------------
// SplitMix64
// ---------------------------------------------------------------------------------------------

type rng struct{ s uint64 }

func (r *rng) next() uint64 {
	r.s += 0x9E3779B97F4A7C15
	z := r.s
	z = (z ^ (z >> 30)) * 0xBF58476D1CE4E5B9
	z = (z ^ (z >> 27)) * 0x94D049BB133111EB
	return z ^ (z >> 31)
}
func (r *rng) below(n int) int {
	if n <= 0 {
		return 0
	}
	return int(r.next() % uint64(n))
}
func (r *rng) chance(pct int) bool { return r.below(100) < pct }
func (r *rng) perm(n int) []int {
	p := make([]int, n)
	for i := range p {
		p[i] = i
	}
	for i := n - 1; i > 0; i-- {
		j := r.below(i + 1)
		p[i], p[j] = p[j], p[i]
	}
	return p
}

// ---------------------------------------------------------------------------------------------
// Specification
// ---------------------------------------------------------------------------------------------

type TypeSpec struct {
	CloneOf                 int // index of the type this one is a renamed Clone() of (-1: none)
	Name, Desc              string
	Kind                    int // 0 custom, 1 flag, 2 integer, 3 decimal
	Size                    int
	Signed                  bool
	Min, Max, Scale, Offset float64
}
type UnitSpec struct {
	CloneOf            int
	Name, Desc, Symbol string
	Kind               int
}
type EnumValSpec struct {
	Name, Desc string
	Index      int
}
type EnumSpec struct {
	CloneOf    int
	Name, Desc string
	MinSize    int
	Vals       []EnumValSpec
}
type AttrSpec struct {
	Kind     int // 0 string, 1 int, 2 hex int, 3 float, 4 enum
	Name     string
	Desc     string
	DefS     string
	DefI     int
	MinI     int
	MaxI     int
	DefF     float64
	MinF     float64
	MaxF     float64
	EnumVals []string
}
type AssignSpec struct {
	Attr int
	S    string
	I    int
	F    float64
}
type BuilderSpec struct {
	Name string
	Ops  [][3]int // kind, from, len
}
type ChildSpec struct {
	Sig    *SigSpec
	Groups []int // empty: fixed signal (all groups)
}
type SigSpec struct {
	Kind       int // 0 standard, 1 enum, 2 multiplexer
	Name, Desc string
	Start      int // relative start position
	Type, Unit int // Unit -1: none
	Enum       int
	GroupCount int
	GroupSize  int
	Children   []ChildSpec
	Attrs      []AssignSpec
	StartValue float64
	SendType   int
	Reset      bool // set the same type / unit / enum a second time before the signal is used
	Size       int // expected size (generator's own computation)
}
type IfRef struct{ Node, Num int }
type MsgSpec struct {
	Name, Desc string
	ID         uint32
	SizeByte   int
	Static     bool
	StaticID   uint32
	BigEndian  bool
	Cycle      int
	Delay      int
	StartDelay int
	SendType   int
	Priority   int
	Recv       []IfRef
	Sigs       []*SigSpec
	Attrs      []AssignSpec
}
type IfSpec struct {
	Ref  IfRef
	Msgs []*MsgSpec
}
type BusSpec struct {
	Name, Desc string
	Baud       int
	Builder    int // -1 default
	NilBuilder bool // SetCANIDBuilder(nil): back to the default builder
	Ifs        []*IfSpec
	Attrs      []AssignSpec
}
type NodeSpec struct {
	Name, Desc string
	ID         uint32
	IfCount    int
	Attrs      []AssignSpec
}
type Spec struct {
	Name, Desc string
	Types      []TypeSpec
	Units      []UnitSpec
	Enums      []EnumSpec
	Attrs      []AttrSpec
	Builders   []BuilderSpec
	Nodes      []NodeSpec
	Buses      []*BusSpec
	Ties       bool // generated with deliberately tied sort keys (C15)
}

func calcSize(v int) int {
	if v == 0 {
		return 1
	}
	return bits.Len(uint(v))
}

func (e *EnumSpec) size() int {
	mx := 0
	for _, v := range e.Vals {
		if v.Index > mx {
			mx = v.Index
		}
	}
	s := calcSize(mx)
	if e.MinSize > s {
		return e.MinSize
	}
	return s
}

// ---------------------------------------------------------------------------------------------
// Generator
// ---------------------------------------------------------------------------------------------

type genOpts struct {
	Ties     bool // equal names for types/units/enums/attributes/builders, equal sizes, equal node ids across buses
	MaxDepth int
	Buses    int // number of buses (0: 1..3)
	Clones   bool // renamed Clone()s of types / units / enums, referenced next to their originals
	CaseTwin bool // names that differ only by case ("Can" / "CAN") for every named kind
	NonASCII bool // names with 2-, 3- and 4-byte runes (caseless or lower-case, so ToLower keeps them)
	Huge     bool // one very long name / description (5 KB, 20 KB) for every entity kind
	Special  bool // '|' in names and descriptions, line breaks in strings that only appear in table cells
	Collide  bool // names that collide after clearSpaces ("a b" / "a_b")
}

const nameChars = "abcdefghijklmnopqrstuvwxyzABCDEFGHIJKLMNOPQRSTUVWXYZ0123456789_ .-+*"

type gen struct {
	r       *rng
	o       genOpts
	uniq    int
	collide string
	last    map[string]string
}

func (g *gen) word(min, max int) string {
	n := min + g.r.below(max-min+1)
	b := make([]byte, n)
	for i := range b {
		for {
			c := nameChars[g.r.below(len(nameChars))]
			if (i == 0 || i == n-1) && (c == ' ' || c == '-' || c == '.' || c == '+' || c == '*' || c == '_') {
				continue
			}
			if i > 0 && c == ' ' && b[i-1] == ' ' {
				continue
			}
			b[i] = c
			break
		}
	}
	if g.o.Special && n >= 2 && g.r.chance(12) {
		b[1+g.r.below(n-1)] = '|'
	}
	return string(b)
}

// parDesc: a description that is written as a paragraph (network, bus, node, message, enum):
// in special mode it may look like a Markdown block or span several lines.
func (g *gen) parDesc() string {
	if g.o.Special && g.r.chance(40) {
		pool := []string{"---", "===", "----------", "# one", "## two", "### three", "- item", "* item", "+ item", "> quoted",
			"| a | b |", "___", "***", "~~~", "```", "first line\nsecond line", "title\n---", "title\n===", "a\n  ## b\nc",
			"text\n- item\n> quote", "  # indented", "\t- tab",
			"# Limits  ", "## trailing blanks   \nnext line", "  # indented and trailing  ", "# crlf \r\nsecond", "- item\t\t", "=== \t ", "plain  \n# heading after a hard break  "}
		return pool[g.r.below(len(pool))]
	}
	return g.desc()
}

// cellDesc: a description that is only ever written into a table cell (signals, types, units,
// enum values): may also contain line breaks.
func (g *gen) cellDesc() string {
	d := g.desc()
	if g.o.Special && d != "" && g.r.chance(20) {
		k := 1 + g.r.below(len(d)-1)
		d = d[:k] + []string{"\n", "\r\n", "\n\n", "\r"}[g.r.below(4)] + d[k:]
	}
	return d
}

// uname returns a name that is unique in the whole specification.
func swapCase(s string) string {
	b := []byte(s)
	for i, c := range b {
		switch {
		case c >= 'a' && c <= 'z':
			b[i] = c - 32
		case c >= 'A' && c <= 'Z':
			b[i] = c + 32
		}
	}
	return string(b)
}

func (g *gen) uname(prefix string) string {
	if g.o.CaseTwin && g.last[prefix] != "" && g.r.chance(30) {
		n := swapCase(g.last[prefix]) // differs from the previous name of this kind only by case
		g.last[prefix] = ""
		return n
	}
	g.uniq++
	n := fmt.Sprintf("%s%d %s", prefix, g.uniq, g.word(1, 5))
	if g.o.NonASCII && g.r.chance(35) {
		n += " " + []string{"Steuerger\u00e4t", "\u00e4\u00f6\u00fc\u00df", "\u6e29\u5ea6\u30bb\u30f3\u30b5", "\u20ac\u2211", "\U0001F600\U0001F697", "a\u00e4\u65e5\U0001F600z"}[g.r.below(6)]
	}
	if g.o.Special && g.r.chance(12) { // a name is legal with a line break, also one followed by block syntax
		n += []string{"\n## second line", "\r\nsecond", "\n---", "\nsecond line", "\r- x"}[g.r.below(5)]
	}
	if g.last == nil {
		g.last = map[string]string{}
	}
	g.last[prefix] = n
	return n
}

// pname returns a name from a tiny pool (collisions wanted) when ties are requested.
func (g *gen) pname(prefix string) string {
	if g.o.Ties && g.r.chance(70) {
		return fmt.Sprintf("%s%c", prefix, 'A'+byte(g.r.below(2)))
	}
	return g.uname(prefix)
}

func (g *gen) desc() string {
	if g.r.chance(55) {
		return ""
	}
	if g.o.Special && g.r.chance(12) { // long descriptions: 101..400 bytes, with and without blanks, multi-byte runes around byte 100
		n := 101 + g.r.below(300)
		switch g.r.below(4) {
		case 0:
			return "d" + strings.Repeat("x", n)
		case 1:
			return "d" + strings.Repeat("word ", n/5) + "end"
		case 2:
			return "d" + strings.Repeat("y", 96+g.r.below(4)) + strings.Repeat("\u00e9\u65e5", 20) + " tail"
		default:
			return "d" + strings.Repeat("z", 97+g.r.below(6)) + " " + strings.Repeat("w", n)
		}
	}
	return "d" + g.word(1, 14) + "x"
}

var floatPool = []float64{0, 1, -1, 0.5, 0.1, 255, 1e-3, 100, -40, 65535, 1e6, 1e21, 2.5e-7, 3.141592653589793}

func (g *gen) float() float64 { return floatPool[g.r.below(len(floatPool))] }

func genSpec(r *rng, o genOpts) *Spec {
	g := &gen{r: r, o: o}
	if o.MaxDepth == 0 {
		o.MaxDepth = 3
		g.o.MaxDepth = 3
	}
	sp := &Spec{Name: g.uname("net"), Desc: g.parDesc(), Ties: o.Ties}

	nTypes := 2 + r.below(4)
	for i := 0; i < nTypes; i++ {
		t := TypeSpec{Name: g.pname("ty"), Desc: g.cellDesc(), Kind: r.below(4)}
		size := 1 + r.below(12)
		if o.Ties && r.chance(60) {
			size = 4 + 4*r.below(2)
		}
		switch t.Kind {
		case 0:
			t.Size, t.Signed, t.Min, t.Max, t.Scale, t.Offset = size, r.chance(50), g.float(), g.float(), g.float(), g.float()
		case 1:
			t.Size = 1
		case 2, 3:
			t.Size, t.Signed = size, r.chance(50)
		}
		sp.Types = append(sp.Types, t)
	}
	for i := range sp.Types {
		sp.Types[i].CloneOf = -1
	}
	if o.Clones && len(sp.Types) >= 2 && r.chance(70) {
		k := r.below(len(sp.Types) - 1)
		c := sp.Types[k]
		c.CloneOf, c.Name = k, g.uname("tyclone")
		last := sp.Types[len(sp.Types)-1]
		sp.Types = append(sp.Types[:len(sp.Types)-1], c, last)
	}
	nUnits := 1 + r.below(3)
	for i := 0; i < nUnits; i++ {
		u := UnitSpec{Name: g.pname("un"), Desc: g.cellDesc(), Symbol: g.word(1, 3), Kind: r.below(4)}
		if r.chance(30) { // a unit is legal without a symbol (dimensionless) ...
			u.Symbol = ""
		}
		if r.chance(8) { // ... and the API does not refuse an empty name
			u.Name = ""
		}
		sp.Units = append(sp.Units, u)
	}
	for i := range sp.Units {
		sp.Units[i].CloneOf = -1
	}
	if o.Clones && r.chance(60) {
		k := r.below(len(sp.Units))
		c := sp.Units[k]
		c.CloneOf, c.Name = k, g.uname("unclone")
		if n := len(sp.Units); n >= 2 && k < n-1 {
			last := sp.Units[n-1]
			sp.Units = append(sp.Units[:n-1], c, last)
		} else {
			sp.Units = append(sp.Units, c)
		}
	}
	nEnums := 2 + r.below(3)
	for i := 0; i < nEnums; i++ {
		e := EnumSpec{Name: g.pname("en"), Desc: g.parDesc()}
		if r.chance(25) {
			e.MinSize = 1 + r.below(6)
		}
		if !r.chance(25) { // 25 %: enum without values
			nv := 1 + r.below(5)
			idx := 0
			for j := 0; j < nv; j++ {
				idx += r.below(3)
				e.Vals = append(e.Vals, EnumValSpec{Name: g.uname("v"), Desc: g.cellDesc(), Index: idx})
				idx++
			}
		}
		sp.Enums = append(sp.Enums, e)
	}
	for i := range sp.Enums {
		sp.Enums[i].CloneOf = -1
	}
	if o.Clones && r.chance(70) {
		k := r.below(len(sp.Enums) - 1)
		c := sp.Enums[k]
		c.CloneOf, c.Name = k, g.uname("enclone")
		c.Vals = append([]EnumValSpec{}, c.Vals...)
		last := sp.Enums[len(sp.Enums)-1]
		sp.Enums = append(sp.Enums[:len(sp.Enums)-1], c, last)
	}
	// one attribute of every type, plus a few more
	nAttrs := 5 + r.below(4)
	for i := 0; i < nAttrs; i++ {
		k := i
		if i >= 5 {
			k = r.below(5)
		}
		at := AttrSpec{Kind: k, Name: g.pname("at"), Desc: g.desc()}
		if o.Collide && i > 0 && r.chance(40) {
			if prev := sp.Attrs[i-1].Name; strings.Contains(prev, " ") {
				at.Name = strings.ReplaceAll(prev, " ", "_") // "at3 x" / "at3_x": one BA_DEF_ name
			}
		}
		switch k {
		case 0:
			at.DefS = g.word(0, 6)
		case 1, 2:
			at.MinI, at.MaxI = 0, 10+r.below(1000)
			at.DefI = r.below(at.MaxI + 1)
			switch r.below(4) {
			case 0:
				at.DefI = at.MinI
			case 1:
				at.DefI = at.MaxI
			}
		case 3:
			at.MinF, at.MaxF = -1000, 1000
			at.DefF = g.float()
			if at.DefF > 1000 || at.DefF < -1000 {
				at.DefF = 0
			}
			switch r.below(5) {
			case 0:
				at.DefF = at.MinF
			case 1:
				at.DefF = at.MaxF
			}
		case 4:
			nv := 1 + r.below(4)
			for j := 0; j < nv; j++ {
				at.EnumVals = append(at.EnumVals, fmt.Sprintf("ev%d%s", j, g.word(0, 3)))
			}
			// value texts of every width: in non-ASCII mode the values are short and long texts of
			// 1-, 2-, 3- and 4-byte runes next to ASCII ones (a forked stream: the rest of the
			// specification does not depend on it)
			if o.NonASCII {
				fr := &rng{s: r.s ^ 0x5851f42d4c957f2d}
				pool := []string{"V", "\u00b0C", "\u03a9", "\u00e4\u00f6\u00fc\u00df", "\u6e29\u5ea6", "\U0001F600", "k\u03a9 ", "\u20ac\u2211\u20ac\u2211\u20ac\u2211", "a\u00e4\u65e5\U0001F600z", "mA"}
				for j := range at.EnumVals {
					switch fr.below(3) {
					case 0: // a text of the pool alone (unique by its position)
						at.EnumVals[j] = pool[fr.below(len(pool))] + strings.Repeat("'", j)
					case 1: // the ASCII value followed by one
						at.EnumVals[j] += pool[fr.below(len(pool))]
					}
				}
			}
			// repeated values at the front, in the middle and at the end (the factory skips them)
			for k := r.below(4); k > 0 && r.chance(75); k-- {
				dup := at.EnumVals[r.below(len(at.EnumVals))]
				pos := 1 + r.below(len(at.EnumVals))
				at.EnumVals = append(at.EnumVals[:pos], append([]string{dup}, at.EnumVals[pos:]...)...)
			}
		}
		sp.Attrs = append(sp.Attrs, at)
	}
	nBuilders := r.below(3)
	if o.Ties {
		nBuilders = 2
	}
	for i := 0; i < nBuilders; i++ {
		b := BuilderSpec{Name: g.pname("cb")}
		// node id (kind 2) 0..4, message id (kind 1) 4..7+, bit mask
		if r.chance(50) {
			b.Ops = [][3]int{{2, 0, 5}, {1, 5, 6}}
		} else {
			b.Ops = [][3]int{{1, 0, 6}, {2, 6, 5}, {0, 11, 2}}
		}
		sp.Builders = append(sp.Builders, b)
	}

	nNodes := 2 + r.below(4)
	for i := 0; i < nNodes; i++ {
		n := NodeSpec{Name: g.uname("node"), Desc: g.parDesc(), ID: uint32(i + 1), IfCount: 1 + r.below(2)}
		if o.Ties && i > 0 && r.chance(50) {
			// equal node ids / names on nodes that will sit on different buses or on none
			n.ID = sp.Nodes[i-1].ID
			if r.chance(50) {
				n.Name = sp.Nodes[i-1].Name
			}
		}
		n.Attrs = g.assigns(sp, 35)
		sp.Nodes = append(sp.Nodes, n)
	}
	// all interfaces
	var free []IfRef
	for ni, n := range sp.Nodes {
		for k := 0; k < n.IfCount; k++ {
			free = append(free, IfRef{ni, k})
		}
	}
	allIfs := append([]IfRef(nil), free...)

	nBuses := 1 + r.below(3)
	if o.Buses > 0 {
		nBuses = o.Buses
	}
	for bi := 0; bi < nBuses; bi++ {
		b := &BusSpec{Name: g.uname("bus"), Desc: g.parDesc(), Builder: -1}
		if r.chance(70) {
			b.Baud = []int{125000, 250000, 500000, 1000000}[r.below(4)]
		}
		if len(sp.Builders) > 0 && r.chance(60) {
			b.Builder = r.below(len(sp.Builders))
		}
		b.NilBuilder = r.chance(35)
		b.Attrs = g.assigns(sp, 35)
		usedID := map[uint32]bool{}
		usedName := map[string]bool{}
		usedNode := map[int]bool{}
		nIf := r.below(4)
		if bi == 0 && nIf == 0 {
			nIf = 1
		}
		for k := 0; k < nIf && len(free) > 0; k++ {
			j := r.below(len(free))
			ref := free[j]
			nd := sp.Nodes[ref.Node]
			if usedID[nd.ID] || usedName[nd.Name] || usedNode[ref.Node] {
				continue
			}
			usedID[nd.ID], usedName[nd.Name], usedNode[ref.Node] = true, true, true
			free = append(free[:j], free[j+1:]...)
			ifs := &IfSpec{Ref: ref}
			nMsg := r.below(4)
			usedMsgID := map[uint32]bool{}
			usedStatic := map[uint32]bool{}
			for mi := 0; mi < nMsg; mi++ {
				m := g.message(sp, allIfs, ref)
				if o.Ties && mi > 0 && r.chance(50) && !ifs.Msgs[mi-1].Static == m.Static {
					// static CAN-ID equal to a sibling's message id (both are legal on one interface)
					if m.Static {
						m.StaticID = ifs.Msgs[mi-1].ID
					} else {
						m.ID = ifs.Msgs[mi-1].StaticID
					}
				}
				if m.Static {
					for usedStatic[m.StaticID] {
						m.StaticID++
					}
					usedStatic[m.StaticID] = true
				} else {
					for usedMsgID[m.ID] {
						m.ID++
					}
					usedMsgID[m.ID] = true
				}
				ifs.Msgs = append(ifs.Msgs, m)
			}
			b.Ifs = append(b.Ifs, ifs)
		}
		sp.Buses = append(sp.Buses, b)
	}
	if o.Huge {
		big := func(n int) string { return "h" + strings.Repeat("0123456789abcdef ", n/17) + "end" }
		sp.Desc = big(20000)
		sp.Name += " " + big(5000)
		if len(sp.Types) > 0 {
			sp.Types[0].Desc = big(5000)
			sp.Types[0].Name += " " + big(5000)
		}
		sp.Units[0].Desc, sp.Enums[0].Desc = big(5000), big(5000)
		if len(sp.Enums[0].Vals) > 0 {
			sp.Enums[0].Vals[0].Desc = big(5000)
		}
		sp.Nodes[0].Desc = big(5000)
		sp.Nodes[0].Name += " " + big(5000)
		for bi, b := range sp.Buses {
			if bi == 0 {
				b.Desc = big(20000)
				b.Name += " " + big(5000)
			}
			for _, f := range b.Ifs {
				for mi, m := range f.Msgs {
					if mi == 0 {
						m.Desc = big(5000)
						m.Name += " " + big(5000)
						if len(m.Sigs) > 0 {
							m.Sigs[0].Desc = big(5000)
						}
					}
				}
			}
		}
	}
	// static CAN-IDs must be unique per bus
	for _, b := range sp.Buses {
		seen := map[uint32]bool{}
		for _, f := range b.Ifs {
			for _, m := range f.Msgs {
				if m.Static {
					for seen[m.StaticID] {
						m.StaticID += 64
					}
					seen[m.StaticID] = true
				}
			}
		}
	}
	return sp
}

// addDeepChain appends a message whose signals are multiplexers nested [levels] deep; the innermost
// group holds an enum signal (enum with values) and a standard signal whose type, unit and enum are
// referenced from nowhere else.
func addDeepChain(sp *Spec, r *rng, levels int) {
	var ifs *IfSpec
	for _, b := range sp.Buses {
		if len(b.Ifs) > 0 {
			ifs = b.Ifs[r.below(len(b.Ifs))]
			break
		}
	}
	if ifs == nil {
		return
	}
	g := &gen{r: r, uniq: 100000 + len(sp.Types)*100}
	sp.Types = append(sp.Types, TypeSpec{CloneOf: -1, Name: g.uname("deepty"), Kind: 2, Size: 3, Signed: r.chance(50)})
	sp.Units = append(sp.Units, UnitSpec{CloneOf: -1, Name: g.uname("deepun"), Symbol: []string{"", "m"}[r.below(2)], Kind: r.below(4)})
	sp.Enums = append(sp.Enums, EnumSpec{CloneOf: -1, Name: g.uname("deepen"), Desc: g.desc(),
		Vals: []EnumValSpec{{Name: g.uname("dv"), Index: 0}, {Name: g.uname("dv"), Desc: "dlast", Index: 2 + r.below(2)}}})
	ti, ui, ei := len(sp.Types)-1, len(sp.Units)-1, len(sp.Enums)-1
	inner := []ChildSpec{
		{Sig: &SigSpec{Kind: 1, Name: g.uname("s"), Enum: ei, Unit: -1, Start: 0, Size: sp.Enums[ei].size()}, Groups: []int{0}},
		{Sig: &SigSpec{Kind: 0, Name: g.uname("s"), Type: ti, Unit: ui, Start: 4, Size: 3}, Groups: nil},
	}
	gs := 8
	var cur *SigSpec
	for l := 0; l < levels; l++ {
		gc := 2 + r.below(2)
		m := &SigSpec{Kind: 2, Name: g.uname("s"), Unit: -1, GroupCount: gc, GroupSize: gs, Size: gs + calcSize(gc-1)}
		if cur == nil {
			m.Children = inner
		} else {
			cur.Start = r.below(2)
			m.Children = []ChildSpec{{Sig: cur, Groups: []int{gc - 1}}}
		}
		cur = m
		gs = m.Size + 2
	}
	cur.Start = 64 - cur.Size - r.below(3)
	ifs.Msgs = append(ifs.Msgs, &MsgSpec{Name: g.uname("msg"), ID: uint32(900 + r.below(50)), SizeByte: 8, Sigs: []*SigSpec{cur}})
}

func (g *gen) assigns(sp *Spec, pct int) []AssignSpec {
	var res []AssignSpec
	used := map[int]bool{}
	for g.r.chance(pct) && len(res) < 4 {
		ai := g.r.below(len(sp.Attrs))
		if used[ai] {
			continue
		}
		used[ai] = true
		at := sp.Attrs[ai]
		as := AssignSpec{Attr: ai}
		switch at.Kind {
		case 0:
			as.S = g.word(0, 5)
		case 1, 2:
			as.I = at.MinI + g.r.below(at.MaxI-at.MinI+1)
			switch g.r.below(4) {
			case 0:
				as.I = at.MinI
			case 1:
				as.I = at.MaxI
			}
		case 3:
			as.F = float64(g.r.below(2000)-1000) / 4
			switch g.r.below(5) {
			case 0:
				as.F = at.MinF
			case 1:
				as.F = at.MaxF
			}
		case 4:
			as.S = at.EnumVals[g.r.below(len(at.EnumVals))]
		}
		res = append(res, as)
	}
	return res
}

func (g *gen) message(sp *Spec, allIfs []IfRef, self IfRef) *MsgSpec {
	r := g.r
	m := &MsgSpec{Name: g.uname("msg"), Desc: g.parDesc(), ID: uint32(1 + r.below(60)), SizeByte: 1 + r.below(8)}
	if r.chance(30) {
		m.Static, m.StaticID = true, uint32(1+r.below(2000))
	}
	m.BigEndian = r.chance(30)
	if r.chance(50) {
		m.Cycle = 10 * (1 + r.below(100))
	}
	if r.chance(20) {
		m.Delay = 1 + r.below(50)
	}
	if r.chance(20) {
		m.StartDelay = 1 + r.below(50)
	}
	m.SendType = r.below(5)
	m.Priority = r.below(4)
	m.Attrs = g.assigns(sp, 35)
	usedRecvNode := map[int]bool{self.Node: true}
	for k := r.below(4); k > 0; k-- {
		ref := allIfs[r.below(len(allIfs))]
		if usedRecvNode[ref.Node] { // receivers are keyed by node
			continue
		}
		usedRecvNode[ref.Node] = true
		m.Recv = append(m.Recv, ref)
	}
	if r.chance(18) { // message without signals
		return m
	}
	bitsTotal := m.SizeByte * 8
	cur := 0
	nSig := 1 + r.below(6)
	for k := 0; k < nSig; k++ {
		s := g.signal(sp, bitsTotal-cur, 1)
		if s == nil {
			break
		}
		gap := 0
		if r.chance(35) {
			gap = r.below(4)
		}
		if cur+gap+s.Size > bitsTotal {
			gap = 0
		}
		s.Start = cur + gap
		cur = s.Start + s.Size
		m.Sigs = append(m.Sigs, s)
	}
	return m
}

// signal generates a signal of size <= room (nil if impossible).
func (g *gen) signal(sp *Spec, room, depth int) *SigSpec {
	r := g.r
	if room < 1 {
		return nil
	}
	kind := r.below(10)
	s := &SigSpec{Name: g.uname("s"), Desc: g.cellDesc(), Unit: -1}
	if g.o.Collide {
		if g.collide != "" {
			s.Name, g.collide = g.collide, ""
		} else if r.chance(15) {
			g.uniq++
			s.Name = fmt.Sprintf("s%d c", g.uniq)
			g.collide = fmt.Sprintf("s%d_c", g.uniq) // the next signal: equal after clearSpaces
		}
	}
	if r.chance(25) {
		s.StartValue = float64(r.below(100))
	}
	if r.chance(25) {
		s.SendType = r.below(8)
	}
	s.Attrs = g.assigns(sp, 30)
	s.Reset = r.chance(30)
	switch {
	case kind < 5: // standard
		var cands []int
		for i, t := range sp.Types {
			if t.Size <= room && (depth >= 3 || i != len(sp.Types)-1) {
				cands = append(cands, i)
			}
		}
		if len(cands) == 0 {
			return nil
		}
		s.Kind, s.Type = 0, cands[r.below(len(cands))]
		if depth >= 3 && sp.Types[len(sp.Types)-1].Size <= room && r.chance(60) {
			s.Type = len(sp.Types) - 1 // a type referenced only from deep nesting
		}
		s.Size = sp.Types[s.Type].Size
		if r.chance(50) {
			s.Unit = r.below(len(sp.Units))
			if len(sp.Units) > 1 && s.Unit == len(sp.Units)-1 && depth < 3 {
				s.Unit = 0
			}
			if depth >= 3 && r.chance(60) {
				s.Unit = len(sp.Units) - 1 // a unit referenced only from deep nesting
			}
		}
	case kind < 8 || depth > g.o.MaxDepth || room < 3: // enum
		var cands []int
		for i := range sp.Enums {
			if sp.Enums[i].size() <= room && (depth >= 3 || i != len(sp.Enums)-1) {
				cands = append(cands, i)
			}
		}
		if len(cands) == 0 {
			return nil
		}
		s.Kind, s.Enum = 1, cands[r.below(len(cands))]
		if depth >= 3 && sp.Enums[len(sp.Enums)-1].size() <= room && r.chance(60) {
			s.Enum = len(sp.Enums) - 1 // an enum referenced only from deep nesting
		}
		s.Size = sp.Enums[s.Enum].size()
	default: // multiplexer
		gc := []int{1, 2, 2, 3, 4, 5, 8}[r.below(7)]
		sel := calcSize(gc - 1)
		if sel+1 > room {
			gc, sel = 1, 1
			if room < 2 {
				return nil
			}
		}
		gs := 1 + r.below(room-sel)
		if gs > 28 {
			gs = 28
		}
		s.Kind, s.GroupCount, s.GroupSize, s.Size = 2, gc, gs, gs+sel
		cursors := make([]int, gc)
		nCh := r.below(6)
		for k := 0; k < nCh; k++ {
			var groups []int
			fixed := r.chance(20)
			if !fixed {
				for gi := 0; gi < gc; gi++ {
					if r.chance(45) {
						groups = append(groups, gi)
					}
				}
				if len(groups) == 0 {
					groups = []int{r.below(gc)}
				}
			}
			in := groups
			if fixed {
				in = make([]int, gc)
				for gi := range in {
					in[gi] = gi
				}
			}
			start := 0
			for _, gi := range in {
				if cursors[gi] > start {
					start = cursors[gi]
				}
			}
			if r.chance(30) {
				start += r.below(3)
			}
			c := g.signal(sp, gs-start, depth+1)
			if c == nil {
				continue
			}
			c.Start = start
			for _, gi := range in {
				cursors[gi] = start + c.Size
			}
			s.Children = append(s.Children, ChildSpec{Sig: c, Groups: groups})
		}
	}
	return s
}

// ---------------------------------------------------------------------------------------------
// Builder
// ---------------------------------------------------------------------------------------------

// Built holds the entities created for a specification.
type Built struct {
	Net      *a.Network
	Types    []*a.SignalType
	Units    []*a.SignalUnit
	Enums    []*a.SignalEnum
	Attrs    []a.Attribute
	Builders []*a.CANIDBuilder
	Nodes    []*a.Node
	Buses    []*a.Bus
	Msgs     []*a.Message
	Sigs     []a.Signal
	MsgOf    map[*MsgSpec]*a.Message
	SigOf    map[*SigSpec]a.Signal
	SpecOf   map[a.EntityID]*SigSpec
	Errs     []string
}

func (b *Built) chk(what string, err error) {
	if err != nil {
		b.Errs = append(b.Errs, what+": "+err.Error())
	}
}

// order: permutation source for the construction order (nil: specification order).
func build(sp *Spec, pr *rng) *Built {
	ord := func(n int) []int {
		if pr == nil {
			p := make([]int, n)
			for i := range p {
				p[i] = i
			}
			return p
		}
		return pr.perm(n)
	}
	b := &Built{MsgOf: map[*MsgSpec]*a.Message{}, SigOf: map[*SigSpec]a.Signal{}, SpecOf: map[a.EntityID]*SigSpec{}}
	b.Net = a.NewNetwork(sp.Name)
	b.Net.SetDesc(sp.Desc)

	b.Types = make([]*a.SignalType, len(sp.Types))
	for _, i := range ord(len(sp.Types)) {
		t := sp.Types[i]
		var st *a.SignalType
		var err error
		if t.CloneOf >= 0 {
			continue
		}
		switch t.Kind {
		case 0:
			st, err = a.NewCustomSignalType(t.Name, t.Size, t.Signed, t.Min, t.Max, t.Scale, t.Offset)
		case 1:
			st = a.NewFlagSignalType(t.Name)
		case 2:
			st, err = a.NewIntegerSignalType(t.Name, t.Size, t.Signed)
		case 3:
			st, err = a.NewDecimalSignalType(t.Name, t.Size, t.Signed)
		}
		b.chk("type", err)
		if st != nil {
			st.SetDesc(t.Desc)
		}
		b.Types[i] = st
	}
	for _, i := range ord(len(sp.Types)) { // renamed clones, once their originals exist
		if t := sp.Types[i]; t.CloneOf >= 0 && b.Types[t.CloneOf] != nil {
			b.Types[i] = b.Types[t.CloneOf].Clone()
			b.Types[i].SetName(t.Name)
		}
	}
	b.Units = make([]*a.SignalUnit, len(sp.Units))
	for _, i := range ord(len(sp.Units)) {
		u := sp.Units[i]
		if u.CloneOf >= 0 {
			continue
		}
		b.Units[i] = a.NewSignalUnit(u.Name, a.SignalUnitKind(u.Kind), u.Symbol)
		b.Units[i].SetDesc(u.Desc)
	}
	for _, i := range ord(len(sp.Units)) {
		if u := sp.Units[i]; u.CloneOf >= 0 {
			b.Units[i] = b.Units[u.CloneOf].Clone()
			b.Units[i].SetName(u.Name)
		}
	}
	b.Enums = make([]*a.SignalEnum, len(sp.Enums))
	for _, i := range ord(len(sp.Enums)) {
		e := sp.Enums[i]
		if e.CloneOf >= 0 {
			continue
		}
		en := a.NewSignalEnum(e.Name)
		en.SetDesc(e.Desc)
		if e.MinSize > 0 {
			en.SetMinSize(e.MinSize)
		}
		for _, j := range ord(len(e.Vals)) {
			v := a.NewSignalEnumValue(e.Vals[j].Name, e.Vals[j].Index)
			v.SetDesc(e.Vals[j].Desc)
			b.chk("enum value", en.AddValue(v))
		}
		b.Enums[i] = en
	}
	for _, i := range ord(len(sp.Enums)) {
		if e := sp.Enums[i]; e.CloneOf >= 0 {
			en, err := b.Enums[e.CloneOf].Clone()
			b.chk("enum clone", err)
			if en != nil {
				en.UpdateName(e.Name)
			}
			b.Enums[i] = en
		}
	}
	b.Attrs = make([]a.Attribute, len(sp.Attrs))
	for _, i := range ord(len(sp.Attrs)) {
		at := sp.Attrs[i]
		var att a.Attribute
		var err error
		switch at.Kind {
		case 0:
			x := a.NewStringAttribute(at.Name, at.DefS)
			x.SetDesc(at.Desc)
			att = x
		case 1, 2:
			var x *a.IntegerAttribute
			x, err = a.NewIntegerAttribute(at.Name, at.DefI, at.MinI, at.MaxI)
			if x != nil {
				x.SetDesc(at.Desc)
				if at.Kind == 2 {
					x.SetFormatHex()
				}
				att = x
			}
		case 3:
			var x *a.FloatAttribute
			x, err = a.NewFloatAttribute(at.Name, at.DefF, at.MinF, at.MaxF)
			if x != nil {
				x.SetDesc(at.Desc)
				att = x
			}
		case 4:
			var x *a.EnumAttribute
			x, err = a.NewEnumAttribute(at.Name, at.EnumVals...)
			if x != nil {
				x.SetDesc(at.Desc)
				att = x
			}
		}
		b.chk("attribute", err)
		b.Attrs[i] = att
	}
	b.Builders = make([]*a.CANIDBuilder, len(sp.Builders))
	for _, i := range ord(len(sp.Builders)) {
		cb := a.NewCANIDBuilder(sp.Builders[i].Name)
		for _, op := range sp.Builders[i].Ops {
			switch op[0] {
			case 0:
				cb.UseBitMask(op[1], op[2])
			case 1:
				cb.UseMessageID(op[1], op[2])
			case 2:
				cb.UseNodeID(op[1], op[2])
			}
		}
		b.Builders[i] = cb
	}
	assign := func(what string, ent interface {
		AssignAttribute(a.Attribute, any) error
	}, as []AssignSpec) {
		for _, k := range ord(len(as)) {
			x := as[k]
			var v any
			switch sp.Attrs[x.Attr].Kind {
			case 0, 4:
				v = x.S
			case 1, 2:
				v = x.I
			case 3:
				v = x.F
			}
			b.chk(what+" attribute", ent.AssignAttribute(b.Attrs[x.Attr], v))
		}
	}
	b.Nodes = make([]*a.Node, len(sp.Nodes))
	for _, i := range ord(len(sp.Nodes)) {
		n := sp.Nodes[i]
		nd := a.NewNode(n.Name, a.NodeID(n.ID), n.IfCount)
		nd.SetDesc(n.Desc)
		assign("node", nd, n.Attrs)
		b.Nodes[i] = nd
	}
	getIf := func(ref IfRef) *a.NodeInterface {
		ni, err := b.Nodes[ref.Node].GetInterface(ref.Num)
		b.chk("interface", err)
		return ni
	}
	b.Buses = make([]*a.Bus, len(sp.Buses))
	type pendingRecv struct {
		m   *a.Message
		ref IfRef
	}
	var recvs []pendingRecv
	for _, i := range ord(len(sp.Buses)) {
		bs := sp.Buses[i]
		bus := a.NewBus(bs.Name)
		bus.SetDesc(bs.Desc)
		if bs.Baud != 0 {
			bus.SetBaudrate(bs.Baud)
		}
		if bs.Builder >= 0 {
			bus.SetCANIDBuilder(b.Builders[bs.Builder])
		} else if bs.NilBuilder {
			bus.SetCANIDBuilder(nil) // documented: back to the default builder
		}
		assign("bus", bus, bs.Attrs)
		b.Buses[i] = bus
		for _, fi := range ord(len(bs.Ifs)) {
			f := bs.Ifs[fi]
			ni := getIf(f.Ref)
			b.chk("AddNodeInterface", bus.AddNodeInterface(ni))
			for _, mi := range ord(len(f.Msgs)) {
				ms := f.Msgs[mi]
				m := a.NewMessage(ms.Name, a.MessageID(ms.ID), ms.SizeByte)
				m.SetDesc(ms.Desc)
				if ms.Static {
					b.chk("SetStaticCANID", m.SetStaticCANID(a.CANID(ms.StaticID)))
				}
				if ms.BigEndian {
					m.SetByteOrder(a.MessageByteOrderBigEndian)
				}
				if ms.Cycle > 0 {
					m.SetCycleTime(ms.Cycle)
				}
				if ms.Delay > 0 {
					m.SetDelayTime(ms.Delay)
				}
				if ms.StartDelay > 0 {
					m.SetStartDelayTime(ms.StartDelay)
				}
				m.SetSendType(a.MessageSendType(ms.SendType))
				m.SetPriority(a.MessagePriority(ms.Priority))
				assign("message", m, ms.Attrs)
				b.chk("AddSentMessage", ni.AddSentMessage(m))
				b.Msgs = append(b.Msgs, m)
				b.MsgOf[ms] = m
				for _, rf := range ms.Recv {
					recvs = append(recvs, pendingRecv{m, rf})
				}
				for _, si := range ord(len(ms.Sigs)) {
					ss := ms.Sigs[si]
					sig := b.newSignal(sp, ss, assign)
					if sig == nil {
						continue
					}
					b.chk("InsertSignal "+ss.Name, m.InsertSignal(sig, ss.Start))
					b.fillMux(sp, ss, sig, ord, assign)
				}
			}
		}
	}
	for _, k := range ord(len(recvs)) {
		b.chk("AddReceiver", recvs[k].m.AddReceiver(getIf(recvs[k].ref)))
	}
	for _, i := range ord(len(sp.Buses)) {
		b.chk("AddBus", b.Net.AddBus(b.Buses[i]))
	}
	return b
}

func (b *Built) newSignal(sp *Spec, ss *SigSpec, assign func(string, interface {
	AssignAttribute(a.Attribute, any) error
}, []AssignSpec)) a.Signal {
	var sig a.Signal
	switch ss.Kind {
	case 0:
		s, err := a.NewStandardSignal(ss.Name, b.Types[ss.Type])
		b.chk("NewStandardSignal", err)
		if s == nil {
			return nil
		}
		if ss.Unit >= 0 {
			s.SetUnit(b.Units[ss.Unit])
		}
		if ss.Reset { // the same definitions once more: nothing may change
			b.chk("SetType(same)", s.SetType(b.Types[ss.Type]))
			if ss.Unit >= 0 {
				s.SetUnit(b.Units[ss.Unit])
			}
		}
		sig = s
	case 1:
		s, err := a.NewEnumSignal(ss.Name, b.Enums[ss.Enum])
		b.chk("NewEnumSignal", err)
		if s == nil {
			return nil
		}
		if ss.Reset {
			b.chk("SetEnum(same)", s.SetEnum(b.Enums[ss.Enum]))
		}
		sig = s
	case 2:
		s, err := a.NewMultiplexerSignal(ss.Name, ss.GroupCount, ss.GroupSize)
		b.chk("NewMultiplexerSignal", err)
		if s == nil {
			return nil
		}
		sig = s
	}
	sig.SetDesc(ss.Desc)
	if ss.StartValue != 0 {
		sig.SetStartValue(ss.StartValue)
	}
	sig.SetSendType(a.SignalSendType(ss.SendType))
	assign("signal", sig, ss.Attrs)
	b.Sigs = append(b.Sigs, sig)
	b.SigOf[ss] = sig
	b.SpecOf[sig.EntityID()] = ss
	return sig
}

// fillMux inserts the children top-down (the multiplexer is already attached, so that acmelib
// registers every descendant with the message).
func (b *Built) fillMux(sp *Spec, ss *SigSpec, sig a.Signal, ord func(int) []int, assign func(string, interface {
	AssignAttribute(a.Attribute, any) error
}, []AssignSpec)) {
	if ss.Kind != 2 {
		return
	}
	mux, err := sig.ToMultiplexer()
	if err != nil {
		b.chk("ToMultiplexer", err)
		return
	}
	for _, ci := range ord(len(ss.Children)) {
		ch := ss.Children[ci]
		c := b.newSignal(sp, ch.Sig, assign)
		if c == nil {
			continue
		}
		b.chk("mux.InsertSignal "+ch.Sig.Name, mux.InsertSignal(c, ch.Sig.Start, ch.Groups...))
		b.fillMux(sp, ch.Sig, c, ord, assign)
	}
}
