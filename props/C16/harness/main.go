// C16 harness: generates networks, exports them to Markdown through the public API, parses the
// rendered text back into blocks, evaluates the property clauses directly, calls String() on
// every entity under recover(), and writes (model input, observed blocks) for the Coq model.
package main

import (
	"bufio"
	"crypto/sha256"
	"encoding/hex"
	"fmt"
	"os"
	"sort"
	"strconv"
	"strings"

	a "github.com/squadracorsepolito/acmelib"
)

func hx(s string) string { return "x" + hex.EncodeToString([]byte(s)) }

type dumper struct {
	w     *strings.Builder
	types map[*a.SignalType]int
	units map[*a.SignalUnit]int
	enums map[*a.SignalEnum]int
	tl    []*a.SignalType
	ul    []*a.SignalUnit
	el    []*a.SignalEnum
}

func (d *dumper) typ(t *a.SignalType) int {
	if i, ok := d.types[t]; ok {
		return i
	}
	d.types[t] = len(d.tl)
	d.tl = append(d.tl, t)
	return len(d.tl) - 1
}
func (d *dumper) unit(u *a.SignalUnit) int {
	if u == nil {
		return -1
	}
	if i, ok := d.units[u]; ok {
		return i
	}
	d.units[u] = len(d.ul)
	d.ul = append(d.ul, u)
	return len(d.ul) - 1
}
func (d *dumper) enum(e *a.SignalEnum) int {
	if i, ok := d.enums[e]; ok {
		return i
	}
	d.enums[e] = len(d.el)
	d.el = append(d.el, e)
	return len(d.el) - 1
}

func (d *dumper) sigs(sigs []a.Signal) {
	for _, s := range sigs {
		switch s.Kind() {
		case a.SignalKindStandard:
			ss, _ := s.ToStandard()
			fmt.Fprintf(d.w, "std %s %s %d %d %d\n", hx(s.Name()), hx(s.Desc()), s.GetRelativeStartPos(), d.typ(ss.Type()), d.unit(ss.Unit()))
		case a.SignalKindEnum:
			es, _ := s.ToEnum()
			fmt.Fprintf(d.w, "enm %s %s %d %d %d\n", hx(s.Name()), hx(s.Desc()), s.GetRelativeStartPos(), s.GetSize(), d.enum(es.Enum()))
		case a.SignalKindMultiplexer:
			mx, _ := s.ToMultiplexer()
			fmt.Fprintf(d.w, "mux %s %s %d %d %d\n", hx(s.Name()), hx(s.Desc()), s.GetRelativeStartPos(), mx.GroupCount(), mx.GroupSize())
			for _, g := range mx.GetSignalGroups() {
				fmt.Fprintf(d.w, "grp\n")
				d.sigs(g)
				fmt.Fprintf(d.w, "endgrp\n")
			}
			fmt.Fprintf(d.w, "endmux\n")
		}
	}
}

// dumpNetwork writes the model input: the network as the exporter's getters present it.
func dumpNetwork(net *a.Network) string {
	d := &dumper{w: &strings.Builder{}, types: map[*a.SignalType]int{}, units: map[*a.SignalUnit]int{}, enums: map[*a.SignalEnum]int{}}
	body := &strings.Builder{}
	d.w = body
	fmt.Fprintf(body, "net %s %s\n", hx(net.Name()), hx(net.Desc()))
	for _, bus := range net.Buses() {
		fmt.Fprintf(body, "bus %s %s %d\n", hx(bus.Name()), hx(bus.Desc()), bus.Baudrate())
		for _, ni := range bus.NodeInterfaces() {
			n := ni.Node()
			fmt.Fprintf(body, "nif %s %s %d\n", hx(n.Name()), hx(n.Desc()), uint32(n.ID()))
			for _, m := range ni.SentMessages() {
				st, canid := 0, uint32(m.GetCANID())
				if m.HasStaticCANID() {
					st = 1
				}
				recv := m.Receivers()
				fmt.Fprintf(body, "msg %s %s %d %d %d %d %s %d %d", hx(m.Name()), hx(m.Desc()), st, canid, uint32(m.ID()), m.SizeByte(),
					hx(m.ByteOrder().String()), m.CycleTime(), len(recv))
				for _, r := range recv {
					fmt.Fprintf(body, " %s", hx(r.Node().Name()))
				}
				fmt.Fprintf(body, "\n")
				d.sigs(m.Signals())
				fmt.Fprintf(body, "endmsg\n")
			}
			fmt.Fprintf(body, "endnif\n")
		}
		fmt.Fprintf(body, "endbus\n")
	}
	head := &strings.Builder{}
	g := func(f float64) string { return hx(fmt.Sprintf("%g", f)) }
	for i, t := range d.tl {
		sg := 0
		if t.Signed() {
			sg = 1
		}
		fmt.Fprintf(head, "typ %d %s %s %d %s %d %s %s %s %s\n", i, hx(t.Name()), hx(t.Desc()), t.Size(), hx(t.Kind().String()), sg,
			g(t.Min()), g(t.Max()), g(t.Scale()), g(t.Offset()))
	}
	for i, u := range d.ul {
		fmt.Fprintf(head, "unt %d %s %s %s %s\n", i, hx(u.Name()), hx(u.Desc()), hx(u.Kind().String()), hx(u.Symbol()))
	}
	for i, e := range d.el {
		vals := e.Values()
		fmt.Fprintf(head, "enu %d %s %s %d %d", i, hx(e.Name()), hx(e.Desc()), e.MaxIndex(), len(vals))
		for _, v := range vals {
			fmt.Fprintf(head, " %s %d %s", hx(v.Name()), v.Index(), hx(v.Desc()))
		}
		fmt.Fprintf(head, "\n")
	}
	return head.String() + body.String()
}

func dumpBlocks(bs []Block) string {
	w := &strings.Builder{}
	for _, b := range bs {
		switch b.Kind {
		case 'H':
			fmt.Fprintf(w, "H %d %s\n", b.Level, hx(b.Text))
		case 'P':
			fmt.Fprintf(w, "P %s\n", hx(b.Text))
		case 'B':
			fmt.Fprintf(w, "B %s\n", hx(b.Text))
		case 'R':
			fmt.Fprintf(w, "R\n")
		case 'L':
			fmt.Fprintf(w, "L\n")
		case 'T':
			fmt.Fprintf(w, "T %d", len(b.Header))
			for _, c := range b.Header {
				fmt.Fprintf(w, " %s", hx(c))
			}
			fmt.Fprintf(w, " %d", len(b.Rows))
			for _, r := range b.Rows {
				fmt.Fprintf(w, " %d", len(r))
				for _, c := range r {
					fmt.Fprintf(w, " %s", hx(c))
				}
			}
			fmt.Fprintf(w, "\n")
		}
	}
	return w.String()
}

// callStrings calls String() on every entity reachable from the build, each under recover().
func callStrings(b *Built, kinds map[string]int) []propFail {
	var fails []propFail
	try := func(kind string, f func() string) {
		defer func() {
			if r := recover(); r != nil {
				fails = append(fails, propFail{"string-panic-" + kind, fmt.Sprintf("%s.String() panicked: %v", kind, r)})
			}
		}()
		s := f()
		kinds["string-"+kind]++
		if s == "" {
			fails = append(fails, propFail{"string-empty-" + kind, kind + ".String() returned the empty string"})
		}
	}
	try("network", b.Net.String)
	for _, x := range b.Buses {
		try("bus", x.String)
		try("canid-builder", x.CANIDBuilder().String)
	}
	for _, x := range b.Builders {
		try("canid-builder", x.String)
	}
	for _, x := range b.Nodes {
		try("node", x.String)
		for _, ni := range x.Interfaces() {
			try("node-interface", ni.String)
		}
	}
	for _, x := range b.Msgs {
		try("message", x.String)
	}
	for _, x := range b.Sigs {
		try("signal-"+x.Kind().String(), x.String)
	}
	for _, x := range b.Types {
		if x != nil {
			try("signal-type", x.String)
		}
	}
	for _, x := range b.Units {
		try("signal-unit", x.String)
	}
	for _, x := range b.Enums {
		try("signal-enum", x.String)
		for _, v := range x.Values() {
			try("signal-enum-value", v.String)
		}
	}
	for _, x := range b.Attrs {
		if x != nil {
			try("attribute-"+x.Type().String(), x.String)
		}
	}
	return fails
}

// checkEnumAttributes: String() and the exporters print EnumAttribute.Values(); it must be the
// value list of the factory call without repetitions, in order of first occurrence (contiguous
// indexes), and GetValueAtIndex must agree with it.
func checkEnumAttributes(sp *Spec, b *Built, kinds map[string]int) (fails []propFail) {
	for i, as := range sp.Attrs {
		if as.Kind != 4 || b.Attrs[i] == nil {
			continue
		}
		var want []string
		seen := map[string]bool{}
		rep := "none"
		for j, v := range as.EnumVals {
			if seen[v] {
				if j == len(as.EnumVals)-1 && rep == "none" {
					rep = "last"
				} else {
					rep = "inner"
				}
				continue
			}
			seen[v] = true
			want = append(want, v)
		}
		kinds["enum-attribute-repeats-"+rep]++
		func() {
			defer func() {
				if r := recover(); r != nil {
					fails = append(fails, propFail{"enum-attribute-values-panic-repeat-" + rep,
						fmt.Sprintf("EnumAttribute.Values() of NewEnumAttribute(%q, %q...) panicked: %v", as.Name, as.EnumVals, r)})
				}
			}()
			ea, err := b.Attrs[i].ToEnum()
			if err != nil {
				return
			}
			got := ea.Values()
			if strings.Join(got, "\x00") != strings.Join(want, "\x00") {
				fails = append(fails, propFail{"enum-attribute-values-repeat-" + rep,
					fmt.Sprintf("EnumAttribute.Values() = %q for the value list %q, want %q", got, as.EnumVals, want)})
				return
			}
			for k, w := range want {
				if v, err := ea.GetValueAtIndex(k); err != nil || v != w {
					fails = append(fails, propFail{"enum-attribute-index-repeat-" + rep,
						fmt.Sprintf("GetValueAtIndex(%d) = %q, %v for the value list %q, want %q", k, v, err, as.EnumVals, w)})
					return
				}
			}
			if ea.DefValue() != as.EnumVals[0] {
				fails = append(fails, propFail{"enum-attribute-default", fmt.Sprintf("DefValue() = %q, want %q", ea.DefValue(), as.EnumVals[0])})
			}
		}()
	}
	return fails
}

var editNames = []string{"clear-one-group", "remove-one-child", "clear-one-group-then-remove-child", "clear-all-groups"}

// editAndRejudge applies one kind of public-API edit to every multiplexer that holds signals
// (clear one non-empty group / remove one child / both / clear all groups), then exports the
// edited network, evaluates the property clauses against its getters and calls String() on the
// network, every message and every edited multiplexer, each under recover().
func editAndRejudge(b *Built, r *rng, edit int, kinds map[string]int) (fails []propFail) {
	name := editNames[edit]
	edited := []*a.MultiplexerSignal{}
	shape := "single-group-only"
	func() {
		defer func() {
			if rec := recover(); rec != nil {
				fails = append(fails, propFail{"after-edit-" + name + "-edit-panic", fmt.Sprintf("the edit itself panicked: %v", rec)})
			}
		}()
		for _, s := range b.Sigs {
			if s.Kind() != a.SignalKindMultiplexer || s.ParentMessage() == nil {
				continue
			}
			mx, err := s.ToMultiplexer()
			if err != nil {
				continue
			}
			var nonEmpty []int
			var children []a.Signal
			inGroups := map[a.EntityID]int{}
			for g := 0; g < mx.GroupCount(); g++ {
				grp := mx.GetSignalGroup(g)
				if len(grp) > 0 {
					nonEmpty = append(nonEmpty, g)
				}
				for _, c := range grp {
					if inGroups[c.EntityID()] == 0 {
						children = append(children, c)
					}
					inGroups[c.EntityID()]++
				}
			}
			if len(nonEmpty) == 0 {
				continue
			}
			if edit == 0 || edit == 2 {
				g := nonEmpty[r.below(len(nonEmpty))]
				for _, c := range mx.GetSignalGroup(g) {
					if n := inGroups[c.EntityID()]; n > 1 && n < mx.GroupCount() {
						shape = "multi-group-child"
					} else if n == mx.GroupCount() && n > 1 && shape != "multi-group-child" {
						shape = "fixed-child"
					}
				}
				if err := mx.ClearSignalGroup(g); err != nil {
					fails = append(fails, propFail{"after-edit-" + name + "-edit-error", "ClearSignalGroup of an existing group: " + err.Error()})
				}
			}
			if edit == 2 { // the children still held after the group was cleared
				children = children[:0]
				seen := map[a.EntityID]bool{}
				for g := 0; g < mx.GroupCount(); g++ {
					for _, c := range mx.GetSignalGroup(g) {
						if !seen[c.EntityID()] {
							seen[c.EntityID()] = true
							children = append(children, c)
						}
					}
				}
			}
			if (edit == 1 || edit == 2) && len(children) > 0 {
				if err := mx.RemoveSignal(children[r.below(len(children))].EntityID()); err != nil {
					fails = append(fails, propFail{"after-edit-" + name + "-edit-error", "RemoveSignal of a held signal: " + err.Error()})
				}
			}
			if edit == 3 {
				mx.ClearAllSignalGroups()
			}
			edited = append(edited, mx)
		}
	}()
	if len(edited) == 0 {
		kinds["after-edit-nothing-to-edit"]++
		return fails
	}
	kinds["after-edit-"+name]++
	if edit == 0 || edit == 2 {
		kinds["after-edit-"+name+"-"+shape]++
	}
	pre := "after-edit-" + name + "-"
	text, xerr, pan := exportMD(b.Net)
	switch {
	case pan != nil:
		fails = append(fails, propFail{pre + "export-panic", fmt.Sprintf("ExportToMarkdown of the edited network panicked: %v", pan)})
	case xerr != nil:
		fails = append(fails, propFail{pre + "export-error", "ExportToMarkdown of the edited network returned: " + xerr.Error()})
	default:
		func() {
			defer func() {
				if rec := recover(); rec != nil {
					fails = append(fails, propFail{pre + "getter-panic", fmt.Sprintf("reading the edited network through its getters panicked: %v", rec)})
				}
			}()
			ignore, md := map[string]int{}, 0
			for _, x := range checkProperty(b.Net, parseMarkdown(text), ignore, &md) {
				fails = append(fails, propFail{pre + x.Kind, "export of the edited network: " + x.Detail})
			}
		}()
	}
	try := func(kind string, f func() string) {
		defer func() {
			if rec := recover(); rec != nil {
				fails = append(fails, propFail{pre + "string-panic-" + kind, fmt.Sprintf("%s.String() of the edited network panicked: %v", kind, rec)})
			}
		}()
		if f() == "" {
			fails = append(fails, propFail{pre + "string-empty-" + kind, kind + ".String() returned the empty string"})
		}
		kinds["after-edit-string-"+kind]++
	}
	try("network", b.Net.String)
	for _, m := range b.Msgs {
		try("message", m.String)
	}
	for _, mx := range edited {
		try("signal-multiplexer", mx.String)
	}
	return fails
}

func exportMD(net *a.Network) (text string, err error, panicked any) {
	defer func() {
		if r := recover(); r != nil {
			panicked = r
		}
	}()
	var sb strings.Builder
	err = a.ExportToMarkdown(net, &sb)
	return sb.String(), err, nil
}

func main() {
	seed, _ := strconv.ParseUint(os.Getenv("VERIF_SEED"), 10, 64)
	tier := os.Getenv("VERIF_TIER")
	out := os.Getenv("VERIF_OUT")
	n := 220
	if tier == "thorough" {
		n = 10000
	}
	if v := os.Getenv("VERIF_N"); v != "" {
		n, _ = strconv.Atoi(v)
	}
	only := -1
	if v := os.Getenv("VERIF_CASE"); v != "" {
		only, _ = strconv.Atoi(v)
	}
	f, err := os.Create(out)
	if err != nil {
		panic(err)
	}
	w := bufio.NewWriter(f)
	kinds := map[string]int{}
	fails := map[string]string{} // kind -> "case ## detail" (shortest dump first)
	failSize := map[string]int{}
	distinct := map[[32]byte]bool{}
	nontrivial, buildErrs, maxDepthAll, written := 0, 0, 0, 0
	samples := []string{}
	for i := 0; i < n; i++ {
		r := &rng{s: seed*1000003 + uint64(i)}
		sp := genSpec(r, genOpts{MaxDepth: 1 + i%3, Special: i%4 == 2, Clones: i%3 != 0, CaseTwin: i%5 == 1, NonASCII: i%4 == 3, Huge: i%24 == 13})
		if i%8 == 5 { // guaranteed deep nesting: 3..5 multiplexer levels around an enum with values
			addDeepChain(sp, r, 3+(i/8)%3)
		}
		if only >= 0 && i != only {
			continue
		}
		b := build(sp, nil)
		if len(b.Errs) > 0 {
			buildErrs++
			kinds["build-error"]++
			if only >= 0 {
				fmt.Println("build errors:", b.Errs)
			}
		}
		for _, bs := range sp.Buses {
			if bs.NilBuilder && bs.Builder < 0 {
				kinds["bus-rendered-right-after-SetCANIDBuilder(nil)"]++
			}
		}
		for _, t := range sp.Types {
			if t.CloneOf >= 0 {
				kinds["renamed-clone-type"]++
			}
		}
		for _, t := range sp.Units {
			if t.CloneOf >= 0 {
				kinds["renamed-clone-unit"]++
			}
		}
		for _, t := range sp.Enums {
			if t.CloneOf >= 0 {
				kinds["renamed-clone-enum"]++
			}
		}
		// render FIRST, before any getter of the harness touches the network: String() of the
		// network and of every bus, then the Markdown export; only then the dump through getters
		var cf []propFail
		for _, f := range []struct {
			kind string
			f    func() string
		}{{"network", b.Net.String}} {
			func() {
				defer func() {
					if r := recover(); r != nil {
						cf = append(cf, propFail{"string-panic-" + f.kind + "-first-read", fmt.Sprintf("%s.String() as the first read after construction panicked: %v", f.kind, r)})
					}
				}()
				f.f()
			}()
		}
		text, xerr, pan := exportMD(b.Net)
		dump := dumpNetwork(b.Net)
		if pan != nil {
			cf = append(cf, propFail{"export-panic", fmt.Sprintf("ExportToMarkdown panicked: %v", pan)})
		}
		blocks := parseMarkdown(text)
		maxDepth := 0
		if pan == nil {
			cf = append(cf, checkProperty(b.Net, blocks, kinds, &maxDepth)...)
			if xerr != nil {
				shape := "other"
				for _, x := range cf {
					if strings.HasPrefix(x.Kind, "row-width-") {
						shape = strings.TrimPrefix(x.Kind, "row-width-")
					}
				}
				cf = append(cf, propFail{"export-error-" + shape, "ExportToMarkdown returned: " + xerr.Error()})
			}
		}
		// the SECOND export of the same network in this process is judged like the first
		if pan == nil {
			text2, xerr2, pan2 := exportMD(b.Net)
			switch {
			case pan2 != nil:
				cf = append(cf, propFail{"second-export-panic", fmt.Sprintf("the second ExportToMarkdown of the unchanged network panicked: %v", pan2)})
			case (xerr2 == nil) != (xerr == nil):
				cf = append(cf, propFail{"second-export-error", fmt.Sprintf("first export: %v, second export: %v", xerr, xerr2)})
			default:
				ignore, md2 := map[string]int{}, 0
				for _, x := range checkProperty(b.Net, parseMarkdown(text2), ignore, &md2) {
					cf = append(cf, propFail{"second-export-" + x.Kind, "second export of the unchanged network: " + x.Detail})
				}
				if text2 != text && len(cf) == 0 {
					cf = append(cf, propFail{"second-export-differs", "the second ExportToMarkdown of the unchanged network differs from the first"})
				}
				kinds["second-export-judged"]++
			}
		}
		cf = append(cf, callStrings(b, kinds)...)
		cf = append(cf, checkEnumAttributes(sp, b, kinds)...)
		if maxDepth > maxDepthAll {
			maxDepthAll = maxDepth
		}
		kinds[fmt.Sprintf("mux-depth-%d", maxDepth)]++
		h := sha256.Sum256([]byte(dump))
		if !distinct[h] {
			distinct[h] = true
			if maxDepth >= 1 && strings.Contains(dump, "\nenm ") && strings.Contains(dump, "\nstd ") {
				nontrivial++
			}
		}
		record := func(cf []propFail) {
			for _, x := range cf {
				if old, ok := failSize[x.Kind]; !ok || len(dump) < old {
					failSize[x.Kind] = len(dump)
					fails[x.Kind] = fmt.Sprintf("%d ## %s", i, x.Detail)
				}
			}
		}
		record(cf)
		e := 0
		if xerr != nil {
			e = 1
		}
		fmt.Fprintf(w, "case %d\n%sendcase\nobs %d\n%sendobs\n", i, dump, e, dumpBlocks(blocks))
		written++
		if strIn, strObs := dumpStrings(b.Net); true {
			fmt.Fprintf(w, "%s%sendstr\n", strIn, strObs)
			kinds["string-renderings-compared"] += strings.Count(strObs, "\n")
		}
		if len(samples) < 2 && maxDepth >= 1 {
			samples = append(samples, fmt.Sprintf("case %d: %s", i, strings.ReplaceAll(dump, "\n", " ; ")))
		}
		// the network stays well-formed under the public editing API: after everything above has
		// rendered (and read) it, one kind of edit is applied to every multiplexer and the edited
		// network is exported, judged and rendered again
		if pan == nil {
			ef := editAndRejudge(b, &rng{s: seed*1000003 + uint64(i) ^ 0x9e3779b97f4a7c15}, i%4, kinds)
			record(ef)
			cf = append(cf, ef...)
		}
		if only >= 0 {
			fmt.Printf("---- case %d: markdown (err=%v)\n%s\n---- model input\n%s", i, xerr, text, dump)
			for _, x := range cf {
				fmt.Printf("PROPFAIL %s: %s\n", x.Kind, x.Detail)
			}
		}
	}
	fmt.Fprintf(w, "END %d\n", written)
	w.Flush()
	f.Close()
	sf, _ := os.Create(out + ".summary")
	fmt.Fprintf(sf, "written %d\n", written)
	fmt.Fprintf(sf, "cases %d\nnontrivial %d\ndistinct %d\nbuilderrors %d\nmaxdepth %d\n", n, nontrivial, len(distinct), buildErrs, maxDepthAll)
	keys := make([]string, 0, len(kinds))
	for k := range kinds {
		keys = append(keys, k)
	}
	sort.Strings(keys)
	for _, k := range keys {
		fmt.Fprintf(sf, "hist %s %d\n", k, kinds[k])
	}
	fk := make([]string, 0, len(fails))
	for k := range fails {
		fk = append(fk, k)
	}
	sort.Strings(fk)
	for _, k := range fk {
		fmt.Fprintf(sf, "PROPFAIL %s %s\n", k, strings.ReplaceAll(fails[k], "\n", " "))
	}
	for _, s := range samples {
		if len(s) > 1500 {
			s = s[:1500]
		}
		fmt.Fprintf(sf, "sample %s\n", s)
	}
	sf.Close()
}
