// Markdown back-parser (rendered text -> block structure) and the C16 property predicates,
// evaluated on the implementation's own output against the implementation's own getters.
package main

import (
	"fmt"
	"strings"

	a "github.com/squadracorsepolito/acmelib"
)

type Block struct {
	Kind   byte // 'H' 'P' 'R' 'B' 'T'
	Level  int
	Text   string
	Header []string
	Rows   [][]string
}

// escCell: what a table cell must look like for the text s ('|' escaped, line breaks as <br>).
func escCell(s string) string {
	s = strings.ReplaceAll(s, "|", "\\|")
	s = strings.ReplaceAll(s, "\r\n", "<br>")
	s = strings.ReplaceAll(s, "\n", "<br>")
	return strings.ReplaceAll(s, "\r", "<br>")
}

// oneLine: what a heading / link shows for a name (line breaks as blanks)
func oneLine(s string) string {
	s = strings.ReplaceAll(s, "\r\n", " ")
	s = strings.ReplaceAll(s, "\n", " ")
	return strings.ReplaceAll(s, "\r", " ")
}

// splitRow splits a rendered table line at the pipes that are not escaped; cells keep their
// escaped form.
func splitRow(line string) []string {
	line = strings.TrimSpace(line)
	line = strings.TrimPrefix(line, "|")
	if strings.HasSuffix(line, "|") && !strings.HasSuffix(line, "\\|") {
		line = strings.TrimSuffix(line, "|")
	}
	var parts []string
	cur := strings.Builder{}
	for i := 0; i < len(line); i++ {
		if line[i] == '\\' && i+1 < len(line) && line[i+1] == '|' {
			cur.WriteString("\\|")
			i++
			continue
		}
		if line[i] == '|' {
			parts = append(parts, strings.TrimSpace(cur.String()))
			cur.Reset()
			continue
		}
		cur.WriteByte(line[i])
	}
	parts = append(parts, strings.TrimSpace(cur.String()))
	return parts
}

// parseMarkdown turns the rendered document into blocks.  Lines made of blanks only (the
// library's LF marker and the empty line after a table) carry no structure and are skipped.
func parseMarkdown(text string) []Block {
	var res []Block
	lines := strings.Split(text, "\n")
	for i := 0; i < len(lines); i++ {
		ln := lines[i]
		switch {
		case ln == "  ":
			res = append(res, Block{Kind: 'L'}) // Markdown.LF(): a blank line for CommonMark
		case strings.TrimSpace(ln) == "":
		case ln == "---":
			res = append(res, Block{Kind: 'R'})
		case strings.HasPrefix(ln, "#"):
			n := 0
			for n < len(ln) && ln[n] == '#' {
				n++
			}
			res = append(res, Block{Kind: 'H', Level: n, Text: strings.TrimPrefix(ln[n:], " ")})
		case strings.HasPrefix(ln, "- "):
			res = append(res, Block{Kind: 'B', Text: ln[2:]})
		case strings.HasPrefix(ln, "|"):
			t := Block{Kind: 'T', Header: splitRow(ln)}
			j := i + 1
			if j < len(lines) && strings.HasPrefix(lines[j], "|-") {
				j++
			}
			for j < len(lines) && strings.HasPrefix(lines[j], "|") {
				t.Rows = append(t.Rows, splitRow(lines[j]))
				j++
			}
			i = j - 1
			res = append(res, t)
		default:
			res = append(res, Block{Kind: 'P', Text: ln})
		}
	}
	return res
}

// commonMark applies the CommonMark block rules that change the section structure of this kind
// of document: a paragraph line DIRECTLY followed by a line of dashes is a setext level-2 heading
// (with a blank line in between the dashes are a thematic break), one directly followed by a line
// of '=' a level-1 heading.
func commonMark(bs []Block) []Block {
	var res []Block
	isEq := func(t string) bool { t = strings.TrimSpace(t); return t != "" && strings.Trim(t, "=") == "" }
	for i := 0; i < len(bs); i++ {
		b := bs[i]
		if b.Kind == 'P' && i+1 < len(bs) {
			if bs[i+1].Kind == 'R' {
				res = append(res, Block{Kind: 'H', Level: 2, Text: b.Text})
				i++
				continue
			}
			if bs[i+1].Kind == 'P' && isEq(bs[i+1].Text) {
				res = append(res, Block{Kind: 'H', Level: 1, Text: b.Text})
				i++
				continue
			}
		}
		res = append(res, b)
	}
	return res
}

// ---------------------------------------------------------------------------------------------
// expected structure from the public getters
// ---------------------------------------------------------------------------------------------

type rowKey struct {
	Marker bool
	Group  int
	Name   string
	Start  string
	Size   string
}

func (k rowKey) String() string {
	if k.Marker {
		return fmt.Sprintf("<group %d>", k.Group)
	}
	return fmt.Sprintf("[%s;%s;%s]", k.Name, k.Start, k.Size)
}

// expectedRows: one key per signal occurrence in the order the groups are laid out.
func expectedRows(sigs []a.Signal, kinds map[string]int, maxDepth *int, depth int) []rowKey {
	var res []rowKey
	if depth > *maxDepth {
		*maxDepth = depth
	}
	for _, s := range sigs {
		res = append(res, rowKey{Name: escCell(s.Name()), Start: fmt.Sprint(s.GetStartBit()), Size: fmt.Sprint(s.GetSize())})
		kinds[fmt.Sprintf("sig-%s-depth%d", s.Kind(), depth)]++
		if s.Kind() == a.SignalKindMultiplexer {
			mux, err := s.ToMultiplexer()
			if err != nil {
				continue
			}
			for gid, grp := range mux.GetSignalGroups() {
				res = append(res, rowKey{Marker: true, Group: gid})
				if len(grp) == 0 {
					kinds["empty-group"]++
				}
				res = append(res, expectedRows(grp, kinds, maxDepth, depth+1)...)
			}
		}
	}
	return res
}

func observedRowKey(row []string) rowKey {
	// a group marker row: every cell is "- k -"
	if len(row) > 0 && strings.HasPrefix(row[0], "- ") && strings.HasSuffix(row[0], " -") {
		all := true
		for _, c := range row {
			if c != row[0] {
				all = false
			}
		}
		var k int
		if all {
			if _, err := fmt.Sscanf(row[0], "- %d -", &k); err == nil {
				return rowKey{Marker: true, Group: k}
			}
		}
	}
	k := rowKey{}
	if len(row) > 0 {
		k.Name = row[0]
	}
	if len(row) > 1 {
		k.Start = row[1]
	}
	if len(row) > 2 {
		k.Size = row[2]
	}
	return k
}

type propFail struct{ Kind, Detail string }

func multisetEq(x, y []string) bool {
	if len(x) != len(y) {
		return false
	}
	m := map[string]int{}
	for _, s := range x {
		m[s]++
	}
	for _, s := range y {
		m[s]--
		if m[s] < 0 {
			return false
		}
	}
	return true
}

// checkProperty evaluates the clauses of C16 on the parsed document.
func checkProperty(net *a.Network, blocks []Block, kinds map[string]int, maxDepth *int) []propFail {
	var fails []propFail
	add := func(kind, f string, args ...any) { fails = append(fails, propFail{kind, fmt.Sprintf(f, args...)}) }

	// every table row has as many cells as its header
	for _, b := range blocks {
		if b.Kind != 'T' {
			continue
		}
		for _, r := range b.Rows {
			for _, c := range r {
				if strings.Contains(c, "\\|") {
					kinds["cell-with-pipe"]++
				}
				if strings.Contains(c, "<br>") {
					kinds["cell-with-line-break"]++
				}
			}
		}
		for _, r := range b.Rows {
			if len(r) != len(b.Header) {
				shape := "too-few-cells"
				if len(r) > len(b.Header) {
					shape = "too-many-cells" // an unescaped '|' in a name or description
				}
				if len(r) > 0 && r[0] == "`multiplexer`" {
					shape = "multiplexer-row"
				}
				add("row-width-"+shape, "row %q has %d cells, header %q has %d", r, len(r), b.Header, len(b.Header))
				break
			}
		}
	}

	// sections: split the document at level-2 headings
	type section struct {
		title string
		body  []Block
	}
	var secs []section
	h1 := 0
	for _, b := range commonMark(blocks) {
		if b.Kind == 'H' && b.Level == 1 {
			h1++
		}
	}
	if h1 != 1 {
		add("sections-network", "%d level-1 headings (CommonMark reading), want 1", h1)
	}
	for _, b := range commonMark(blocks) {
		if b.Kind == 'H' && b.Level == 2 {
			secs = append(secs, section{title: b.Text})
		} else if len(secs) > 0 {
			secs[len(secs)-1].body = append(secs[len(secs)-1].body, b)
		}
	}
	var busNames, h2 []string
	for _, b := range net.Buses() {
		busNames = append(busNames, oneLine(b.Name()))
	}
	for _, s := range secs {
		h2 = append(h2, s.title)
	}
	wantH2 := append(append([]string{}, busNames...), "Signal Types", "Signal Units", "Signal Enums")
	if !multisetEq(h2, wantH2) {
		add("sections-bus", "level-2 headings %q, want one per bus %q plus the three appendices", h2, busNames)
		return fails
	}
	// walk the bus sections in document order; match them to buses by position (Buses() order)
	types := map[*a.SignalType]bool{}
	units := map[*a.SignalUnit]bool{}
	enums := map[*a.SignalEnum]bool{}
	// referenced definitions are collected through the getters only (Unit() != nil), never
	// from the rendered text; minDepth = shallowest multiplexing depth of a reference
	minDepth := map[any]int{}
	note := func(k any, depth int) {
		if d, ok := minDepth[k]; !ok || depth < d {
			minDepth[k] = depth
		}
	}
	var collectAt func(sigs []a.Signal, depth int)
	collectAt = func(sigs []a.Signal, depth int) {
		for _, s := range sigs {
			switch s.Kind() {
			case a.SignalKindStandard:
				ss, _ := s.ToStandard()
				types[ss.Type()] = true
				note(ss.Type(), depth)
				if ss.Unit() != nil {
					units[ss.Unit()] = true
					note(ss.Unit(), depth)
				}
			case a.SignalKindEnum:
				es, _ := s.ToEnum()
				enums[es.Enum()] = true
				note(es.Enum(), depth)
			case a.SignalKindMultiplexer:
				mx, _ := s.ToMultiplexer()
				for _, g := range mx.GetSignalGroups() {
					collectAt(g, depth+1)
				}
			}
		}
	}
	collect := func(sigs []a.Signal) { collectAt(sigs, 0) }
	for bi, bus := range net.Buses() {
		sec := secs[bi]
		if sec.title != oneLine(bus.Name()) {
			add("sections-bus-order", "section %d is %q, bus %d is %q", bi, sec.title, bi, bus.Name())
			continue
		}
		// level-3 split
		var nsecs []section
		for _, b := range sec.body {
			if b.Kind == 'H' && b.Level == 3 {
				nsecs = append(nsecs, section{title: b.Text})
			} else if len(nsecs) > 0 {
				nsecs[len(nsecs)-1].body = append(nsecs[len(nsecs)-1].body, b)
			}
		}
		nis := bus.NodeInterfaces()
		var want, got []string
		for _, ni := range nis {
			want = append(want, oneLine(ni.Node().Name()))
		}
		for _, s := range nsecs {
			got = append(got, s.title)
		}
		if strings.Join(want, "\x00") != strings.Join(got, "\x00") {
			add("sections-node", "bus %q: level-3 headings %q, node interfaces %q", bus.Name(), got, want)
			continue
		}
		for ni, nodeInt := range nis {
			var msecs []section
			for _, b := range nsecs[ni].body {
				if b.Kind == 'H' && b.Level == 4 {
					msecs = append(msecs, section{title: b.Text})
				} else if len(msecs) > 0 {
					msecs[len(msecs)-1].body = append(msecs[len(msecs)-1].body, b)
				}
			}
			msgs := nodeInt.SentMessages()
			var wantM, gotM []string
			for _, m := range msgs {
				wantM = append(wantM, oneLine(m.Name()))
			}
			for _, s := range msecs {
				gotM = append(gotM, s.title)
			}
			if !multisetEq(wantM, gotM) {
				add("sections-message", "node %q: level-4 headings %q, sent messages %q", nodeInt.Node().Name(), gotM, wantM)
				continue
			}
			if strings.Join(wantM, "\x00") != strings.Join(gotM, "\x00") {
				// same multiset, different order: leave to the model comparison / C15
				continue
			}
			for mi, m := range msgs {
				collect(m.Signals())
				var tables []Block
				for _, b := range msecs[mi].body {
					if b.Kind == 'T' {
						tables = append(tables, b)
					}
				}
				if len(m.Signals()) == 0 {
					kinds["message-without-signals"]++
					if len(tables) != 0 {
						add("signal-rows-table-count", "message %q has no signals but %d tables", m.Name(), len(tables))
					}
					continue
				}
				if len(tables) != 1 {
					add("signal-rows-table-count", "message %q: %d tables, want 1", m.Name(), len(tables))
					continue
				}
				want := expectedRows(m.Signals(), kinds, maxDepth, 0)
				var got []rowKey
				for _, r := range tables[0].Rows {
					got = append(got, observedRowKey(r))
				}
				ok := len(want) == len(got)
				for k := 0; ok && k < len(want); k++ {
					ok = want[k] == got[k]
				}
				if !ok {
					// classify: which kind of signal lacks its row?
					shape := "other"
					gotSet := map[rowKey]int{}
					for _, g := range got {
						gotSet[g]++
					}
					for _, w := range want {
						if gotSet[w] == 0 && !w.Marker {
							shape = "missing-" + kindOfSignalNamed(m, w.Name)
							break
						}
						gotSet[w]--
					}
					add("signal-rows-"+shape, "message %q: rows %v, want one row per signal occurrence %v", m.Name(), got, want)
				}
			}
		}
	}
	// appendices: exactly the referenced definitions, once each
	fmtG := func(f float64) string { return fmt.Sprintf("%g", f) }
	orDash := func(s string) string {
		if s == "" {
			return "-"
		}
		return s
	}
	for _, s := range secs[len(net.Buses()):] {
		switch s.title {
		case "Signal Types":
			var want, got []string
			for t := range types {
				want = append(want, joinCells([]string{t.Name(), fmt.Sprint(t.Size()), "`" + t.Kind().String() + "`", fmt.Sprintf("`%t`", t.Signed()),
					fmtG(t.Min()), fmtG(t.Max()), fmtG(t.Scale()), fmtG(t.Offset()), orDash(t.Desc())}))
			}
			for _, b := range s.body {
				if b.Kind == 'T' {
					for _, r := range b.Rows {
						got = append(got, strings.Join(r, " | "))
					}
				}
			}
			if !multisetEq(want, got) {
				add("appendix-types", "types listed %q, referenced %q", got, want)
			}
		case "Signal Units":
			var want, got []string
			for u := range units {
				want = append(want, joinCells([]string{u.Name(), u.Kind().String(), u.Symbol(), orDash(u.Desc())}))
			}
			for _, b := range s.body {
				if b.Kind == 'T' {
					for _, r := range b.Rows {
						got = append(got, strings.Join(r, " | "))
					}
				}
			}
			if !multisetEq(want, got) {
				add("appendix-units", "units listed %q, referenced %q", got, want)
			}
		case "Signal Enums":
			var want, got []string
			for e := range enums {
				x := oneLine(e.Name())
				for _, v := range e.Values() {
					x += "/" + joinCells([]string{v.Name(), fmt.Sprint(v.Index()), orDash(v.Desc())})
				}
				if len(e.Values()) == 0 {
					kinds["enum-without-values"]++
				}
				want = append(want, x)
			}
			cur := -1
			for _, b := range s.body {
				if b.Kind == 'H' && b.Level == 4 {
					got = append(got, b.Text)
					cur = len(got) - 1
				} else if b.Kind == 'T' && cur >= 0 {
					for _, r := range b.Rows {
						got[cur] += "/" + strings.Join(r, " | ")
					}
				}
			}
			if !multisetEq(want, got) {
				add("appendix-enums", "enums listed %q, referenced %q", got, want)
			}
		}
	}
	// hypothesis of md_appendix_exact (well_formed: one entity id, one definition), evaluated on
	// the implementation through the getters
	idOwner := map[a.EntityID]any{}
	for k := range minDepth {
		var id a.EntityID
		switch v := k.(type) {
		case *a.SignalType:
			id = v.EntityID()
		case *a.SignalUnit:
			id = v.EntityID()
		case *a.SignalEnum:
			id = v.EntityID()
		}
		if prev, ok := idOwner[id]; ok && prev != k {
			add("wf-hypothesis-false", "two referenced definitions share the entity id %q", id)
		}
		idOwner[id] = k
		kinds["wf-definitions-checked"]++
	}
	for _, d := range minDepth {
		if d >= 2 {
			kinds["definition-referenced-only-from-depth>=2"]++
		}
	}
	for u := range units {
		if u.Symbol() == "" {
			kinds["referenced-unit-without-symbol"]++
		}
		if u.Name() == "" {
			kinds["referenced-unit-without-name"]++
		}
	}
	kinds[fmt.Sprintf("types-%d", min(len(types), 4))]++
	kinds[fmt.Sprintf("enums-%d", min(len(enums), 4))]++
	return fails
}

// joinCells: the expected cells of a row, escaped, joined by an unescaped separator
func joinCells(cells []string) string {
	out := make([]string, len(cells))
	for i, c := range cells {
		out[i] = escCell(c)
	}
	return strings.Join(out, " | ")
}

func kindOfSignalNamed(m *a.Message, name string) string {
	var find func(sigs []a.Signal, depth int) string
	find = func(sigs []a.Signal, depth int) string {
		for _, s := range sigs {
			if escCell(s.Name()) == name {
				d := "top"
				if depth > 0 {
					d = "nested"
				}
				return s.Kind().String() + "-" + d
			}
			if s.Kind() == a.SignalKindMultiplexer {
				mx, _ := s.ToMultiplexer()
				for _, g := range mx.GetSignalGroups() {
					if r := find(g, depth+1); r != "" {
						return r
					}
				}
			}
		}
		return ""
	}
	if r := find(m.Signals(), 0); r != "" {
		return r
	}
	return "unknown"
}
