package main

import (
	"fmt"
	"strings"
	"time"

	a "github.com/squadracorsepolito/acmelib"
)

// Input of the String() model (coq/C16/ModelStr.v) read through the getters, and the observed
// String() of every entity in the same preorder in which the driver walks the model tree.

type entLike interface {
	EntityID() a.EntityID
	EntityKind() a.EntityKind
	Name() string
	Desc() string
	CreateTime() time.Time
}

type strDump struct {
	w   *strings.Builder
	obs *strings.Builder
}

func ent5(e entLike) string {
	return fmt.Sprintf("%s %s %s %s %s", hx(e.EntityID().String()), hx(e.EntityKind().String()), hx(e.Name()), hx(e.Desc()), hx(e.CreateTime().Format(time.RFC3339)))
}

func (d *strDump) observe(kind string, f func() string) {
	defer func() {
		if r := recover(); r != nil {
			fmt.Fprintf(d.obs, "ostr %s PANIC\n", kind)
		}
	}()
	fmt.Fprintf(d.obs, "ostr %s %s\n", kind, hx(f()))
}

func optSend(s string, unset bool) string {
	if unset {
		return "-"
	}
	return hx(s)
}

func (d *strDump) typ(t *a.SignalType) {
	g := func(f float64) string { return hx(fmt.Sprintf("%g", f)) }
	sg := 0
	if t.Signed() {
		sg = 1
	}
	fmt.Fprintf(d.w, "stype %s %s %d %d %s %s %s %s %d\n", ent5(t), hx(t.Kind().String()), t.Size(), sg, g(t.Min()), g(t.Max()), g(t.Scale()), g(t.Offset()), t.ReferenceCount())
}
func (d *strDump) unit(u *a.SignalUnit) {
	fmt.Fprintf(d.w, "sunit %s %s %s %d\n", ent5(u), hx(u.Kind().String()), hx(u.Symbol()), u.ReferenceCount())
}
func (d *strDump) enum(e *a.SignalEnum) {
	vals := e.Values()
	fmt.Fprintf(d.w, "senum %s %d %d %d", ent5(e), e.MaxIndex(), e.ReferenceCount(), len(vals))
	for _, v := range vals {
		fmt.Fprintf(d.w, " %s %d", ent5(v), v.Index())
	}
	fmt.Fprintf(d.w, "\n")
}

func (d *strDump) sigs(sigs []a.Signal, observe bool) {
	for _, s := range sigs {
		base := fmt.Sprintf("%s %s %s %d %d", ent5(s), hx(s.Kind().String()), optSend(s.SendType().String(), s.SendType() == a.SignalSendTypeUnset), s.GetRelativeStartPos(), s.GetSize())
		if observe {
			d.observe("sig", s.String)
		}
		switch s.Kind() {
		case a.SignalKindStandard:
			ss, _ := s.ToStandard()
			hasUnit := 0
			if ss.Unit() != nil {
				hasUnit = 1
			}
			fmt.Fprintf(d.w, "sstd %s %d\n", base, hasUnit)
			d.typ(ss.Type())
			if observe {
				d.observe("type", ss.Type().String)
			}
			if ss.Unit() != nil {
				d.unit(ss.Unit())
				if observe {
					d.observe("unit", ss.Unit().String)
				}
			}
		case a.SignalKindEnum:
			es, _ := s.ToEnum()
			fmt.Fprintf(d.w, "senm %s\n", base)
			d.enum(es.Enum())
			if observe {
				d.observe("enum", es.Enum().String)
				for _, v := range es.Enum().Values() {
					d.observe("value", v.String)
				}
			}
		case a.SignalKindMultiplexer:
			mx, _ := s.ToMultiplexer()
			has := 0
			for _, g := range mx.GetSignalGroups() {
				if len(g) > 0 {
					has = 1
				}
			}
			fmt.Fprintf(d.w, "smux %s %d\n", base, has)
			for _, g := range mx.GetSignalGroups() {
				fmt.Fprintf(d.w, "grp\n")
				d.sigs(g, observe)
				fmt.Fprintf(d.w, "endgrp\n")
			}
			fmt.Fprintf(d.w, "endmux\n")
		}
	}
}

func (d *strDump) msg(tag string, m *a.Message, observe bool) {
	recv := m.Receivers()
	fmt.Fprintf(d.w, "smsg %s %s %d %d %d %d %d %d %s %d", tag, ent5(m), uint32(m.ID()), uint32(m.Priority()), m.SizeByte(), m.CycleTime(), m.DelayTime(), m.StartDelayTime(),
		optSend(m.SendType().String(), m.SendType() == a.MessageSendTypeUnset), len(recv))
	for _, r := range recv {
		fmt.Fprintf(d.w, " %s %d %s", hx(r.Node().Name()), uint32(r.Node().ID()), hx(r.Node().EntityID().String()))
	}
	fmt.Fprintf(d.w, "\n")
	if observe {
		d.observe("msg", m.String)
	}
	d.sigs(m.Signals(), observe)
	fmt.Fprintf(d.w, "endmsg\n")
}

// dumpStrings returns the model input and the observed renderings.
func dumpStrings(net *a.Network) (string, string) {
	d := &strDump{w: &strings.Builder{}, obs: &strings.Builder{}}
	fmt.Fprintf(d.w, "snet %s\n", ent5(net))
	d.observe("net", net.String)
	for _, bus := range net.Buses() {
		cb := bus.CANIDBuilder()
		ops := cb.Operations()
		fmt.Fprintf(d.w, "sbus %s %d %s %d %d", ent5(bus), bus.Baudrate(), ent5(cb), cb.ReferenceCount(), len(ops))
		for _, op := range ops {
			fmt.Fprintf(d.w, " %s %d %d", hx(op.Kind().String()), op.From(), op.Len())
		}
		fmt.Fprintf(d.w, "\n")
		d.observe("bus", bus.String)
		d.observe("builder", cb.String)
		for _, ni := range bus.NodeInterfaces() {
			n := ni.Node()
			fmt.Fprintf(d.w, "snif %d %s %d\n", ni.Number(), ent5(n), uint32(n.ID()))
			d.observe("nif", ni.String)
			d.observe("node", n.String)
			for _, m := range ni.SentMessages() {
				d.msg("S", m, true)
			}
			for _, m := range ni.ReceivedMessages() {
				d.msg("R", m, false)
			}
			fmt.Fprintf(d.w, "endnif\n")
		}
		fmt.Fprintf(d.w, "endbus\n")
	}
	fmt.Fprintf(d.w, "endsnet\n")
	return d.w.String(), d.obs.String()
}
