"""C17 — bus load figures are arithmetically consistent.
Proof: coq/Properties/C17.v (exact-rational model coq/C17/Model.v).  Tie: props/C17/harness (a Go
module using only acmelib's public API, built against the repo under check on every run) builds
generated buses, calls CalculateBusLoad, converts every float64 to an exact rational and evaluates
the property predicates on the implementation's own numbers; props/C17/driver recomputes the
figures with the extracted Coq model and compares within the relative bound max(n,1)*2^-50."""
import json
import os
import re

import vlib

PID = "C17"


def build_harness(ctx):
    hdir = vlib.go_harness_dir(ctx.prop_dir, ctx.scratch)
    exe = os.path.join(ctx.scratch, "c17h")
    rc, log = vlib.sh(["go", "build", "-o", exe, "."], cwd=hdir, env=vlib.goenv(), timeout=900)
    return (exe if rc == 0 else None), log


def run_impl(ctx, exe, replay_case=None):
    out = os.path.join(ctx.scratch, "cases.txt")
    env = vlib.goenv()
    env.update({"VERIF_OUT": out, "VERIF_SEED": str(ctx.seed), "VERIF_TIER": ctx.tier})
    if replay_case:
        env["VERIF_REPLAY_CASE"] = replay_case
    rc, log = vlib.sh([exe], env=env, timeout=2400)
    return rc, log, out


def parse_summary(path):
    d = {"hist": {}, "propfail": {}, "samples": []}
    if not os.path.exists(path):
        return d
    for line in open(path):
        p = line.rstrip("\n").split(" ", 2)
        if p[0] == "hist":
            d["hist"][p[1]] = int(p[2])
        elif p[0] == "PROPFAIL":
            d["propfail"][p[1]] = p[2]
        elif p[0] == "SAMPLE":
            d["samples"].append(line.rstrip("\n")[7:][:700])
        else:
            d[p[0]] = int(p[1])
    return d


def run(ctx):
    ctx.level = "proof"
    status = vlib.proof_status(PID, extra_targets=["C17/Extract.v", "C17/ExtractFloat.v", "C17/FloatExecProofs.v", "C17/FloatRemark.v"])
    ctx.proof_gate(status)
    drv = vlib.build_ocaml_driver("c17_driver", os.path.join(vlib.COQ, "extracted"),
                                  os.path.join(ctx.prop_dir, "driver", "c17_driver.ml"), only=["c17_model", "c17_float"])
    replay_case = None
    if ctx.replay:
        r = json.load(open(ctx.replay))
        replay_case = (r.get("replay") or {}).get("case")

    exe, blog = build_harness(ctx)
    if exe is None:
        ctx.violation("c17-harness-build", "the public-API harness no longer builds against the repository: " + blog[-800:],
                      {"log": blog[-3000:]}, found_input=False)
        ctx.coverage.update({"evaluations": 0})
        return
    rc, log, out = run_impl(ctx, exe, replay_case)
    if rc != 0 or not os.path.exists(out + ".summary"):
        m = re.search(r"(panic: .*|fatal error: .*)", log)
        ctx.violation("c17-impl-run-failed", "harness run failed (%s): %s" % (m.group(0) if m else "rc=%d" % rc, log[-600:]),
                      {"log": log[-3000:]}, found_input=bool(m))
        ctx.coverage.update({"evaluations": 0})
        return
    summ = parse_summary(out + ".summary")
    rc2, mlog = vlib.sh([drv, out], timeout=2400)
    m = re.search(r"CASES (\d+) MISMATCHES (\d+)", mlog)
    mism = int(m.group(2)) if m else -1
    compared = int(m.group(1)) if m else -1
    mc = re.search(r"CALLS-COMPARED (\d+)", mlog)
    calls_compared = int(mc.group(1)) if mc else -1
    ctx.min_evaluations = 30000 if ctx.tier == "thorough" else 800
    if not ctx.replay and (rc2 != 0 or compared != summ.get("lines", -2) or calls_compared != summ.get("calls", -2)):
        # zero-comparison guard: the driver must have read, to the END marker, exactly the buses the harness wrote and
        # compared exactly the calls it made
        ctx.violation("c17-driver-count", "the model driver read %d buses / compared %d calls (rc %d), the harness wrote %s buses / made %s calls: %s"
                      % (compared, calls_compared, rc2, summ.get("lines"), summ.get("calls"), mlog[-300:]),
                      {"driver_output": mlog[-2000:]}, found_input=False)

    # property-level failures on the implementation's own numbers (a concrete failing bus each,
    # the one with the fewest messages per kind)
    for kind, d in sorted(summ["propfail"].items()):
        detail, _, case = d.partition("; case ")
        ctx.violation("c17-" + kind, "acmelib breaks C17 (%s): %s" % (kind, detail),
                      {"case": case, "detail": detail,
                       "how": "./check C17 --replay <this file>  (the call is repeated 40 times: map iteration order is random)"})
    known = {k["signature"] for k in ctx.known_open}
    new_propfail = [k for k in summ["propfail"] if "c17-" + k not in known]
    if mism != 0 and not new_propfail:
        first = re.search(r"MISMATCH \d+\n  case =(.*)\n  why  =(.*)", mlog)
        ctx.violation("c17-correspondence",
                      "model and implementation disagree on %s call(s) although every property predicate evaluated on the "
                      "implementation holds; the theorems of Properties/C17.v no longer speak about this code. first: %s"
                      % (mism, first.group(0)[:900] if first else mlog[-500:]),
                      {"case": first.group(1) if first else None, "correspondence": "props/C17 figure comparison within max(n,1)*2^-50",
                       "driver_output": mlog[:3000]}, found_input=False)
    # bit-exact comparison with the extracted Flocq binary64 model (coq/C17/FloatExec.v)
    fm = re.search(r"FLOAT-MISMATCHES rate (\d+) load (\d+)", mlog)
    fc = re.search(r"FLOAT-COMPARED rate_calls (\d+) rate_values (\d+) load_calls (\d+) load_large_rates_only (\d+) orders (\d+) "
                   r"order_dependent_totals (\d+) skipped_zero_baud (\d+)", mlog)
    fcnt = dict(zip(["rate_calls", "rate_values", "load_calls", "load_large_rates_only", "orders", "order_dependent_totals",
                     "skipped_zero_baud"], map(int, fc.groups()))) if fc else {}
    fbad = {"rate": int(fm.group(1)), "load": int(fm.group(2))} if fm else {"rate": -1, "load": -1}
    for kind, sig, what in (("rate", "c17-float-rate-bits", "a BitsPerSec differs from float64(msgBits)/float64(cycleTime)*1000 of the Flocq binary64 model"),
                            ("load", "c17-float-load-bits", "the load and the Percentages are not the Flocq binary64 model's for any visiting order of the messages")):
        if fbad[kind] > 0:
            first = re.search(r"FLOATMISMATCH %s\n  fcase =(.*)\n  fwhy  =(.*)" % kind, mlog)
            ctx.violation(sig, "%s on %d call(s) (bit-exact comparison; the float theorems load_float_close, rate_float_close, pct_float_close, "
                               "load_float_monotone no longer speak about this code). first: %s"
                          % (what, fbad[kind], first.group(0)[:900] if first else ""),
                          {"case": first.group(1) if first else None, "why": first.group(2) if first else None,
                           "correspondence": "props/C17 bit-exact comparison with coq/extracted/c17_float.ml"}, found_input=False)
    if not ctx.replay and mism == 0 and not new_propfail and (not fc or not fm or fcnt.get("rate_calls", 0) < 200 or fcnt.get("load_calls", 0) < 100
                                                              or fcnt.get("order_dependent_totals", 0) < 1):
        # floor: a run that compared (almost) nothing bit-exactly proves nothing about the float model
        ctx.violation("c17-float-compare-count", "the driver compared too few calls bit-exactly with the Flocq model: %s (floors: 200 rate calls, "
                      "100 load calls, 1 call whose total depends on the visiting order)" % (fcnt or mlog[-300:]),
                      {"driver_output": mlog[-2000:]}, found_input=False)
    if ctx.replay:
        print(open(out).read()[:3000])
        print(mlog)

    ctx.coverage.update({
        "evaluations": summ.get("calls", 0),
        "distinct_cases": summ.get("distinct", 0),
        "distinct_nontrivial": summ.get("nontrivial", 0),
        "rule": "evaluations = CalculateBusLoad calls; one to seven calls per bus with different default cycle times (and the same one "
                "twice) on the SAME bus, each call compared with the model independently and the public state (cycle times, sizes, "
                "ids, CAN-IDs, names, membership) snapshotted around every call; 40 % of the buses have node ids agreeing in the low 4 "
                "bits and message ids from a small set (also congruent mod 128), 40 % a custom CAN-ID builder (message id only / node "
                "id only / no operations), so distinct messages share computed CAN-IDs and names; entries are matched to the sent "
                "message objects by identity and the expected set is exactly the messages sent through interfaces attached to this bus; "
                "70 % of the buses are decorated (gateway nodes with other interfaces carrying messages on another bus / no bus, static "
                "CAN-IDs below and above 0x7FF set before or after attaching, delay / start-delay times around the cycle time, wide ids "
                "with a mask-less builder, priority, send type, description, signals, receivers, attribute assignments, node names from a "
                "pool with Vector__XXX / empty / DBC keywords, messages also added to a detached interface of the same node); about "
                "10 % of the buses come out of ImportDBCFile of a generated DBC text with sender-less messages. Each bus is built through the public API (0..5 interfaces, 0..40 "
                "messages, sizes 0..8, cycle 0 (default) or 1..3600000, baud in {0,125k,500k,1M,1,random,negative}, default cycle in "
                "{-1,0,1,100,random,min int,...}); families: mixed, slow messages whose rates all differ by < 1 bit/s, neighbouring "
                "cycle times, default-cycle ties, fast messages; every accepted bus is re-run with one message enlarged and with one "
                "cycle time shortened, every fifth bus is run twice (another map order); history phase (not counted in evaluations, hist history/*): on every built bus of a defined type three public mutator steps (UpdateSizeByte accepted / refused above 8 / negative / too small for the signals / same size, SetCycleTime) each followed by a call checked against the sizes and cycle times read back through the getters (kinds history-*). Every float64 is converted to an exact "
                "rational and compared with the Coq model (load, per-key rate and share, rates position by position) within "
                "max(n,1)*2^-50 relative, and the property predicates are evaluated on the implementation's own numbers. "
                "non-trivial = distinct bus with at least two different exact rates, non-zero baud rate and positive default",
        "distribution": summ["hist"],
        "model_mismatches": mism,
        "float_bit_exact": dict(fcnt, mismatches_rate=fbad["rate"], mismatches_load=fbad["load"],
                                what="rate_calls: calls whose every BitsPerSec equals the extracted Flocq rate_x (= rate_float) exactly; "
                                     "load_calls: calls with <= 6 messages whose load and every Percentage equal load_of_total / pct_f of the "
                                     "float total of ONE visiting order (all permutations enumerated); load_large_rates_only: calls with more "
                                     "messages (rates only); skipped_zero_baud: Go returns early, the float model is not defined"),
        "property_predicate_failures": sorted(summ["propfail"]),
        "samples": summ["samples"][:6],
        "exhaustive": False,
        "float_bound": "relative max(n,1)*2^-50, n = number of messages on the bus (per-message rate: 2^-50); checked on every call; for the load "
                       "it is also PROVED (load_float_close) for the modelled IEEE-754 operation order on float_domain",
        "proved_vs_tested": "proved, axiom-free: 19 theorems of Properties/C17.v about the exact-rational model. proved with the standard-library "
                            "real-number axioms (through Flocq), w.r.t. IEEE-754 binary64 semantics for Go's operation order: load_float_close, "
                            "rate_float_close, rate_float_order / rate_float_strict / model_order_float_sorted (order under rounding), "
                            "load_float_monotone (same visiting order), pct_float_close (shares). trusted: Go's float64 is IEEE-754 binary64 round-to-nearest-even, int->float64 exact "
                            "below 2^53. tested on this run, not proved: that the two models "
                            "restate utils.go (the exact model is compared call by call within the bound; the float model, extracted from coq/C17/FloatExec.v, is compared BIT-EXACTLY: every BitsPerSec on every call, load and shares for some visiting order on calls with <= 6 messages)",
        "degenerate_calls_not_compared": int((re.search(r"DEGENERATE-CALLS-NOT-COMPARED (\d+)", mlog) or [0, 0])[1]),
        "trusted_base": [
            "Coq 8.16.1 kernel (coqc; coqchk in the thorough tier); vm_compute only in closed Examples / refuted witnesses",
            "Flocq 4 (IEEE754.Binary/Bits, Relative, Plus_error) for load_float_close; its axioms are the standard-library ones reported below",
            "axioms: none (Print Assumptions: Closed under the global context)" if not status["axioms"] else "axioms: " + ", ".join(status["axioms"]),
            "extraction (ExtrOcamlBasic only, no Extract Constant/Inductive of our own) + OCaml 4.13.1 + props/C17/driver/c17_driver.ml (zarith Z/Q for I/O and the bound comparison)",
            "Go harness props/C17/harness/main.go (generators, math/big exact conversion of float64, the documented formula recomputed with big.Rat, predicates)",
            "model coq/C17/Model.v is a hand-written restatement of utils.go CalculateBusLoad over Q; float64 rounding is not modelled: the implementation's figures are compared with the exact ones within the stated bound, not proved",
        ],
    })
    ctx.assumptions = [
        "monotonicity (enlarge a message / shorten a cycle) is proved and holds for 0 < baud only: for a negative baud rate (accepted by Bus.SetBaudrate) it is refuted (monotone_negative_baud_refuted, open findings c17-*-negative-baud); for baud = 0 the load stays 0; the harness checks all three classes",
        "shares are stated for a non-zero total rate only (entries_spec); on the property's domain a message makes the total positive (total_nonzero); an undefined bus type with only empty messages gives total 0 and NaN shares in Go (shares_unknown_type_refuted, open finding c17-nan-unknown-bus-type)",
        "Go's float64 arithmetic is IEEE-754 binary64 round-to-nearest-even and int->float64 is exact below 2^53 (trusted; the Flocq theorems are about exactly the operation order of utils.go)",
        "NO FUSED MULTIPLY-ADD: the float model rounds after every operation (x/y, then *1000, then +, then /baud, then *100). The Go specification allows an implementation to fuse x*y+z across operations on some architectures (arm64, ppc64, s390x); this run was on amd64 where the gc compiler does not fuse, and `a/b*1000` followed by `+=` in CalculateBusLoad has the shape tot + (q*1000) that could be fused elsewhere. On such a target the proved bound still holds (a fused operation rounds once instead of twice) but bit-exact agreement with the model does not",
        "proved for float64 (Flocq): bound of the load, bound of every per-message rate, order under rounding, monotonicity of the float load for the same visiting order, bound of every float64 share (Percentage). Tested only: load monotonicity across two different visiting orders (checked with the n*2^-50 slack)",
        "bus type is BusTypeCAN2A (the only constant the library defines); sizes 0..8, cycle times >= 0, as the property states",
        "map iteration order is an oracle: the model visits the messages in creation order, the theorems hold for every order (load_order_free, each_message_once)",
    ]
    if ctx.tier == "thorough":
        ok, chk = vlib.coqchk(PID)
        ctx.coverage["coqchk"] = "ok" if ok else "FAILED"
        ctx.coverage["coqchk_tail"] = chk[-1500:]
        if not ok:
            ctx.proof_problems = (getattr(ctx, "proof_problems", []) or []) + ["coqchk failed: " + chk[-500:]]
