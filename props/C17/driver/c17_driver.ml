(* Correspondence driver for C17: reads the case file written by the Go harness
   (props/C17/harness), recomputes the bus load with the extracted exact-rational Coq model
   (coq/extracted/c17_model.ml) and compares the implementation's float64 figures (given as exact
   rationals) with it within the relative bound max(n,1) * 2^-50 (n = number of messages):
   the load, the rate and share of every message (by key), and the rates position by position
   (the model's list is sorted by non-increasing rate).
     L;<baud>;<defs>;<builder>;<ifaces>;<obs>~<obs>...
   one line per bus; CalculateBusLoad was called once per default on the same bus, the model
   `session` gives one result per default; builder, node ids and message ids are ignored (the model
   does not see them).                                                                         *)
module BZ = Z   (* zarith; the extracted model defines its own module Z *)
module BQ = Q
open C17_model

let rec pos_of_z (n : BZ.t) : positive =
  if BZ.equal n BZ.one then XH
  else if BZ.testbit n 0 then XI (pos_of_z (BZ.shift_right n 1))
  else XO (pos_of_z (BZ.shift_right n 1))

let coqz_of_z (n : BZ.t) : z =
  if BZ.sign n = 0 then Z0 else if BZ.sign n > 0 then Zpos (pos_of_z n) else Zneg (pos_of_z (BZ.neg n))

let rec z_of_pos = function
  | XH -> BZ.one
  | XO p -> BZ.shift_left (z_of_pos p) 1
  | XI p -> BZ.succ (BZ.shift_left (z_of_pos p) 1)

let z_of_coqz = function Z0 -> BZ.zero | Zpos p -> z_of_pos p | Zneg p -> BZ.neg (z_of_pos p)
let cz s = coqz_of_z (BZ.of_string s)
let bq_of_q (x : q) : BQ.t = BQ.make (z_of_coqz x.qnum) (z_of_pos x.qden)

let fields s = List.filter (fun x -> x <> "") (String.split_on_char ' ' s)

let parse_ifaces s : msg list list =
  if s = "-" then []
  else List.map (fun is ->
      let is = (match String.index_opt is '=' with
          | Some i -> String.sub is (i + 1) (String.length is - i - 1)   (* drop `<node id>=` *)
          | None -> is) in
      List.map (fun t -> match String.split_on_char ':' t with
          | k :: sz :: cy :: _ -> plain (cz k) (cz sz) (cz cy)   (* msg_rest: see load_ignores_delay *)
          | _ -> failwith ("bad message " ^ t)) (fields is))
      (String.split_on_char '|' s)

(* |x - want| <= |want| * n * 2^-50 *)
let within (x : BQ.t) (want : BQ.t) (n : int) : bool =
  let n = if n < 1 then 1 else n in
  let bound = BQ.mul (BQ.abs want) (BQ.make (BZ.of_int n) (BZ.shift_left BZ.one 50)) in
  BQ.leq (BQ.abs (BQ.sub x want)) bound

let parse_q s = if s = "NaN" then None else Some (BQ.of_string s)

let degenerate = ref 0
let calls = ref 0

(* ---------- bit-exact comparison with the extracted Flocq binary64 model (coq/extracted/c17_float.ml,
   from coq/C17/FloatExec.v: rate_x, total_of_rates, load_of_total, pct_f, bits64) ---------- *)
module F = C17_float
let rec fpos_of_z (n : BZ.t) : F.positive =
  if BZ.equal n BZ.one then F.XH
  else if BZ.testbit n 0 then F.XI (fpos_of_z (BZ.shift_right n 1))
  else F.XO (fpos_of_z (BZ.shift_right n 1))
let fz_of_z (n : BZ.t) : F.z =
  if BZ.sign n = 0 then F.Z0 else if BZ.sign n > 0 then F.Zpos (fpos_of_z n) else F.Zneg (fpos_of_z (BZ.neg n))
let rec z_of_fpos = function
  | F.XH -> BZ.one
  | F.XO p -> BZ.shift_left (z_of_fpos p) 1
  | F.XI p -> BZ.succ (BZ.shift_left (z_of_fpos p) 1)
let z_of_fz = function F.Z0 -> BZ.zero | F.Zpos p -> z_of_fpos p | F.Zneg p -> BZ.neg (z_of_fpos p)
let fconv (x : z) : F.z = fz_of_z (z_of_coqz x)

(* exact value of the IEEE-754 binary64 with the given bit pattern; None for NaN / infinities
   (the harness writes those as "NaN"); -0 and +0 both give 0, as big.Rat.SetFloat64 does *)
let value_of_bits (b : BZ.t) : BQ.t option =
  let sign = BZ.testbit b 63 in
  let e = BZ.to_int (BZ.logand (BZ.shift_right b 52) (BZ.of_int 0x7ff)) in
  let m = BZ.logand b (BZ.pred (BZ.shift_left BZ.one 52)) in
  if e = 0x7ff then None
  else begin
    let (mant, ex) = if e = 0 then (m, -1074) else (BZ.add m (BZ.shift_left BZ.one 52), e - 1075) in
    let v = if ex >= 0 then BQ.of_bigint (BZ.shift_left mant ex) else BQ.make mant (BZ.shift_left BZ.one (- ex)) in
    Some (if sign then BQ.neg v else v)
  end
let fbits x = z_of_fz (F.bits64 x)
let fval x = value_of_bits (fbits x)
let opt_eq (a : BQ.t option) (b : BQ.t option) = match a, b with
  | None, None -> true | Some x, Some y -> BQ.equal x y | _ -> false
let show = function None -> "NaN/Inf" | Some x -> BQ.to_string x

let rec perms = function
  | [] -> [[]]
  | l -> List.concat (List.mapi (fun i x ->
      let rest = List.filteri (fun j _ -> j <> i) l in
      List.map (fun p -> x :: p) (perms rest)) l)

let float_rate_calls = ref 0      (* calls whose every BitsPerSec was compared bit-exactly *)
let float_rate_values = ref 0     (* single BitsPerSec values compared *)
let float_load_calls = ref 0      (* calls (<= 6 messages) whose load and shares were compared bit-exactly over all visiting orders *)
let float_load_large = ref 0      (* calls with more than 6 messages: rates only *)
let float_orders = ref 0          (* visiting orders evaluated *)
let float_multi_total = ref 0     (* calls where different visiting orders give different float totals *)
let float_skipped = ref 0         (* baud = 0: Go returns early, the float model would divide by 0 *)
let float_bad : (string * string * string) list ref = ref []   (* kind, case, why *)
let cur_case = ref ""
let max_perm_msgs = 6

let float_check (b : bus) (def : z) (lq : BQ.t option) (impl : (string * BQ.t option * BQ.t option) list) : unit =
  if z_of_coqz b.b_baud = BZ.zero then incr float_skipped
  else begin
    let typ = fconv b.b_typ and baud = fconv b.b_baud and d = fconv def in
    let msgs = List.map (fun m ->
        (BZ.to_string (z_of_coqz m.m_key), F.rate_x typ d (F.plain (fconv m.m_key) (fconv m.m_size) (fconv m.m_cycle))))
        (bus_msgs b) in
    let report kind why = float_bad := (kind, !cur_case, why) :: !float_bad in
    (* (a) every BitsPerSec, order-free *)
    let bad = List.find_opt (fun (k, bp, _) -> match List.assoc_opt k msgs with
        | None -> true
        | Some r -> incr float_rate_values; not (opt_eq bp (fval r))) impl in
    (match bad with
     | Some (k, bp, _) ->
       report "rate" (Printf.sprintf "key %s: BitsPerSec %s, Flocq binary64 model %s" k (show bp)
                        (match List.assoc_opt k msgs with Some r -> show (fval r) | None -> "(no such message)"))
     | None ->
       incr float_rate_calls;
       (* (b) load and shares: some visiting order must reproduce all of them *)
       if List.length msgs > max_perm_msgs then incr float_load_large
       else begin
         let orders = perms (List.map snd msgs) in
         float_orders := !float_orders + List.length orders;
         let totals = List.fold_left (fun acc o ->
             let t = F.total_of_rates o in
             let bt = fbits t in
             if List.exists (fun (bt', _) -> BZ.equal bt bt') acc then acc else (bt, t) :: acc) [] orders in
         if List.length totals > 1 then incr float_multi_total;
         let fits (_, t) =
           opt_eq lq (fval (F.load_of_total t baud))
           && List.for_all (fun (k, _, pc) -> opt_eq pc (fval (F.pct_f (List.assoc k msgs) t))) impl in
         if List.exists fits totals then incr float_load_calls
         else begin
           let (_, t0) = List.hd (List.rev totals) in
           report "load" (Printf.sprintf "load %s and the shares are reproduced by none of the %d visiting orders (%d distinct float totals); creation order gives load %s"
                            (show lq) (List.length orders) (List.length totals) (show (fval (F.load_of_total t0 baud))))
         end
       end)
  end

let compare_call (b : bus) (def : z) (model : bl_result) obs : string option =
  incr calls;
  let n = List.length (bus_msgs b) in
  match model, obs with
  | BLErr ErrIsNegative, "ERR:neg" -> None
  | BLErr ErrIsZero, "ERR:zero" -> None
  | BLErr ErrIsNegative, _ -> Some "model refuses (negative default cycle time)"
  | BLErr ErrIsZero, _ -> Some "model refuses (zero default cycle time)"
  | BLOk (_, es), _ when es <> [] && BQ.equal (List.fold_left (fun a e -> BQ.add a (bq_of_q e.e_bps)) BQ.zero es) BQ.zero ->
    (* total rate 0 with messages present (only possible outside the property's domain, e.g. an
       undefined bus type with empty messages): the model's shares are x / 0 = 0 by totalisation,
       the Go code divides 0.0 by 0.0; nothing is compared, the harness reports the NaN itself
       (theorem shares_unknown_type_refuted) *)
    incr degenerate; None
  | BLOk (load, es), _ ->
    (match String.split_on_char ':' obs with
     | ["OK"; l; ents] ->
       let impl = List.map (fun t -> match String.split_on_char ',' t with
           | [k; bp; pc] -> (k, parse_q bp, parse_q pc)
           | _ -> failwith ("bad entry " ^ t)) (fields ents) in
       let model = List.map (fun e -> (BZ.to_string (z_of_coqz e.e_msg.m_key), bq_of_q e.e_bps, bq_of_q e.e_pct)) es in
       (match parse_q l with
        | None -> Some "load is NaN/Inf"
        | Some lq when not (within lq (bq_of_q load) n) ->
          Some (Printf.sprintf "load %s, model %s" (BQ.to_string lq) (BQ.to_string (bq_of_q load)))
        | Some _ ->
          if List.length impl <> List.length model then
            Some (Printf.sprintf "%d entries, model %d" (List.length impl) (List.length model))
          else begin
            let problem = ref None in
            (* by key *)
            List.iter (fun (k, bp, pc) ->
                if !problem = None then
                  match List.find_opt (fun (mk, _, _) -> mk = k) model, bp, pc with
                  | None, _, _ -> problem := Some ("entry for unknown message key " ^ k)
                  | _, None, _ | _, _, None -> problem := Some ("NaN/Inf in entry of key " ^ k)
                  | Some (_, mb, mp), Some bp, Some pc ->
                    if not (within bp mb 1) then problem := Some (Printf.sprintf "key %s: rate %s, model %s" k (BQ.to_string bp) (BQ.to_string mb))
                    else if not (within pc mp n) then problem := Some (Printf.sprintf "key %s: share %s, model %s" k (BQ.to_string pc) (BQ.to_string mp))) impl;
            (* each key once *)
            if !problem = None then begin
              let ks = List.sort compare (List.map (fun (k, _, _) -> k) impl)
              and mks = List.sort compare (List.map (fun (k, _, _) -> k) model) in
              if ks <> mks then problem := Some "entries are not the sent messages once each"
            end;
            (* position by position: the model's order is non-increasing rate *)
            if !problem = None then
              List.iteri (fun i ((_, bp, _), (_, mb, _)) ->
                  if !problem = None then
                    match bp with
                    | Some bp when within bp mb 1 -> ()
                    | _ -> problem := Some (Printf.sprintf "position %d: rate %s, model (sorted by non-increasing rate) has %s" i
                                              (match bp with Some x -> BQ.to_string x | None -> "NaN") (BQ.to_string mb)))
                (List.combine impl model);
            if !problem = None then float_check b def (parse_q l) impl;
            !problem
          end)
     | _ -> Some ("model accepts, implementation says " ^ obs))

let () =
  let ic = open_in Sys.argv.(1) in
  let n = ref 0 and bad = ref 0 and end_seen = ref (-1) in
  (try while true do
      let line = input_line ic in
      if String.length line >= 4 && String.sub line 0 4 = "END " then begin
        end_seen := int_of_string (String.sub line 4 (String.length line - 4));
        raise End_of_file
      end;
      incr n;
      cur_case := (match String.rindex_opt line ';' with Some i -> String.sub line 0 i | None -> line);
      let res =
        match String.split_on_char ';' line with
        | ["L"; baud; defs; builder; ifaces; obs] ->
          (try
             let typ = (match String.split_on_char ',' builder with _ :: t :: _ -> cz t | _ -> Z0) in
             let b = { b_typ = typ; b_baud = cz baud; b_ifaces = parse_ifaces ifaces } in
             let ds = List.map cz (String.split_on_char ',' defs) in
             let models = List.combine ds (session b ds) in
             let os = String.split_on_char '~' obs in
             if List.length os <> List.length models then Some "number of recorded calls differs from the number of defaults"
             else
               List.fold_left (fun acc (i, (m, o)) ->
                   match acc with
                   | Some _ -> acc
                   | None -> (match compare_call b (fst m) (snd m) o with
                       | None -> None
                       | Some why -> Some (Printf.sprintf "call %d: %s" i why)))
                 None (List.mapi (fun i x -> (i, x)) (List.combine models os))
           with Failure m -> Some ("driver: " ^ m))
        | _ -> Some "PANIC-OR-MALFORMED line (the model is total)" in
      match res with
      | None -> ()
      | Some why ->
        incr bad;
        if !bad <= 20 then begin
          let input = (match String.rindex_opt line ';' with Some i -> String.sub line 0 i | None -> line) in
          Printf.printf "MISMATCH %d\n  case =%s\n  why  =%s\n" !n input why
        end
    done with End_of_file -> ());
  if !end_seen <> !n then begin
    Printf.printf "NO-VALID-END-MARKER (END says %d, %d lines read): the case file is truncated or not a C17 case file\n" !end_seen !n;
    exit 3
  end;
  List.iteri (fun i (kind, case, why) ->
      if i < 10 then Printf.printf "FLOATMISMATCH %s\n  fcase =%s\n  fwhy  =%s\n" kind case why) (List.rev !float_bad);
  Printf.printf "FLOAT-MISMATCHES rate %d load %d\n"
    (List.length (List.filter (fun (k, _, _) -> k = "rate") !float_bad))
    (List.length (List.filter (fun (k, _, _) -> k = "load") !float_bad));
  Printf.printf "FLOAT-COMPARED rate_calls %d rate_values %d load_calls %d load_large_rates_only %d orders %d order_dependent_totals %d skipped_zero_baud %d\n"
    !float_rate_calls !float_rate_values !float_load_calls !float_load_large !float_orders !float_multi_total !float_skipped;
  Printf.printf "CALLS-COMPARED %d\n" !calls;
  Printf.printf "DEGENERATE-CALLS-NOT-COMPARED %d\n" !degenerate;
  Printf.printf "CASES %d MISMATCHES %d\n" !n !bad
