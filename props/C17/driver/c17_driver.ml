(* Correspondence driver for C17: reads the case file written by the Go harness
   (props/C17/harness), recomputes the bus load with the extracted exact-rational Coq model
   (coq/extracted/c17_model.ml) and compares the implementation's float64 figures (given as exact
   rationals) with it within the relative bound max(n,1) * 2^-50 (n = number of messages):
   the load, the rate and share of every message (by key), and the rates position by position
   (the model's list is sorted by non-increasing rate).
     L;<baud>;<defs>;<builder>;<ifaces>;<obs>~<obs>...
   one line per bus; CalculateBusLoad was called once per default on the same bus, the model
   `session` gives one result per default; builder, node ids and message ids are ignored (the model
   does not see them).                                                                         *)
module BZ = Z   (* zarith; the extracted model defines its own module Z *)
module BQ = Q
open C17_model

let rec pos_of_z (n : BZ.t) : positive =
  if BZ.equal n BZ.one then XH
  else if BZ.testbit n 0 then XI (pos_of_z (BZ.shift_right n 1))
  else XO (pos_of_z (BZ.shift_right n 1))

let coqz_of_z (n : BZ.t) : z =
  if BZ.sign n = 0 then Z0 else if BZ.sign n > 0 then Zpos (pos_of_z n) else Zneg (pos_of_z (BZ.neg n))

let rec z_of_pos = function
  | XH -> BZ.one
  | XO p -> BZ.shift_left (z_of_pos p) 1
  | XI p -> BZ.succ (BZ.shift_left (z_of_pos p) 1)

let z_of_coqz = function Z0 -> BZ.zero | Zpos p -> z_of_pos p | Zneg p -> BZ.neg (z_of_pos p)
let cz s = coqz_of_z (BZ.of_string s)
let bq_of_q (x : q) : BQ.t = BQ.make (z_of_coqz x.qnum) (z_of_pos x.qden)

let fields s = List.filter (fun x -> x <> "") (String.split_on_char ' ' s)

let parse_ifaces s : msg list list =
  if s = "-" then []
  else List.map (fun is ->
      let is = (match String.index_opt is '=' with
          | Some i -> String.sub is (i + 1) (String.length is - i - 1)   (* drop `<node id>=` *)
          | None -> is) in
      List.map (fun t -> match String.split_on_char ':' t with
          | k :: sz :: cy :: _ -> plain (cz k) (cz sz) (cz cy)   (* msg_rest: see load_ignores_delay *)
          | _ -> failwith ("bad message " ^ t)) (fields is))
      (String.split_on_char '|' s)

(* |x - want| <= |want| * n * 2^-50 *)
let within (x : BQ.t) (want : BQ.t) (n : int) : bool =
  let n = if n < 1 then 1 else n in
  let bound = BQ.mul (BQ.abs want) (BQ.make (BZ.of_int n) (BZ.shift_left BZ.one 50)) in
  BQ.leq (BQ.abs (BQ.sub x want)) bound

let parse_q s = if s = "NaN" then None else Some (BQ.of_string s)

let degenerate = ref 0
let calls = ref 0

let compare_call (b : bus) (model : bl_result) obs : string option =
  incr calls;
  let n = List.length (bus_msgs b) in
  match model, obs with
  | BLErr ErrIsNegative, "ERR:neg" -> None
  | BLErr ErrIsZero, "ERR:zero" -> None
  | BLErr ErrIsNegative, _ -> Some "model refuses (negative default cycle time)"
  | BLErr ErrIsZero, _ -> Some "model refuses (zero default cycle time)"
  | BLOk (_, es), _ when es <> [] && BQ.equal (List.fold_left (fun a e -> BQ.add a (bq_of_q e.e_bps)) BQ.zero es) BQ.zero ->
    (* total rate 0 with messages present (only possible outside the property's domain, e.g. an
       undefined bus type with empty messages): the model's shares are x / 0 = 0 by totalisation,
       the Go code divides 0.0 by 0.0; nothing is compared, the harness reports the NaN itself
       (theorem shares_unknown_type_refuted) *)
    incr degenerate; None
  | BLOk (load, es), _ ->
    (match String.split_on_char ':' obs with
     | ["OK"; l; ents] ->
       let impl = List.map (fun t -> match String.split_on_char ',' t with
           | [k; bp; pc] -> (k, parse_q bp, parse_q pc)
           | _ -> failwith ("bad entry " ^ t)) (fields ents) in
       let model = List.map (fun e -> (BZ.to_string (z_of_coqz e.e_msg.m_key), bq_of_q e.e_bps, bq_of_q e.e_pct)) es in
       (match parse_q l with
        | None -> Some "load is NaN/Inf"
        | Some lq when not (within lq (bq_of_q load) n) ->
          Some (Printf.sprintf "load %s, model %s" (BQ.to_string lq) (BQ.to_string (bq_of_q load)))
        | Some _ ->
          if List.length impl <> List.length model then
            Some (Printf.sprintf "%d entries, model %d" (List.length impl) (List.length model))
          else begin
            let problem = ref None in
            (* by key *)
            List.iter (fun (k, bp, pc) ->
                if !problem = None then
                  match List.find_opt (fun (mk, _, _) -> mk = k) model, bp, pc with
                  | None, _, _ -> problem := Some ("entry for unknown message key " ^ k)
                  | _, None, _ | _, _, None -> problem := Some ("NaN/Inf in entry of key " ^ k)
                  | Some (_, mb, mp), Some bp, Some pc ->
                    if not (within bp mb 1) then problem := Some (Printf.sprintf "key %s: rate %s, model %s" k (BQ.to_string bp) (BQ.to_string mb))
                    else if not (within pc mp n) then problem := Some (Printf.sprintf "key %s: share %s, model %s" k (BQ.to_string pc) (BQ.to_string mp))) impl;
            (* each key once *)
            if !problem = None then begin
              let ks = List.sort compare (List.map (fun (k, _, _) -> k) impl)
              and mks = List.sort compare (List.map (fun (k, _, _) -> k) model) in
              if ks <> mks then problem := Some "entries are not the sent messages once each"
            end;
            (* position by position: the model's order is non-increasing rate *)
            if !problem = None then
              List.iteri (fun i ((_, bp, _), (_, mb, _)) ->
                  if !problem = None then
                    match bp with
                    | Some bp when within bp mb 1 -> ()
                    | _ -> problem := Some (Printf.sprintf "position %d: rate %s, model (sorted by non-increasing rate) has %s" i
                                              (match bp with Some x -> BQ.to_string x | None -> "NaN") (BQ.to_string mb)))
                (List.combine impl model);
            !problem
          end)
     | _ -> Some ("model accepts, implementation says " ^ obs))

let () =
  let ic = open_in Sys.argv.(1) in
  let n = ref 0 and bad = ref 0 and end_seen = ref (-1) in
  (try while true do
      let line = input_line ic in
      if String.length line >= 4 && String.sub line 0 4 = "END " then begin
        end_seen := int_of_string (String.sub line 4 (String.length line - 4));
        raise End_of_file
      end;
      incr n;
      let res =
        match String.split_on_char ';' line with
        | ["L"; baud; defs; builder; ifaces; obs] ->
          (try
             let typ = (match String.split_on_char ',' builder with _ :: t :: _ -> cz t | _ -> Z0) in
             let b = { b_typ = typ; b_baud = cz baud; b_ifaces = parse_ifaces ifaces } in
             let ds = List.map cz (String.split_on_char ',' defs) in
             let models = session b ds in
             let os = String.split_on_char '~' obs in
             if List.length os <> List.length models then Some "number of recorded calls differs from the number of defaults"
             else
               List.fold_left (fun acc (i, (m, o)) ->
                   match acc with
                   | Some _ -> acc
                   | None -> (match compare_call b m o with
                       | None -> None
                       | Some why -> Some (Printf.sprintf "call %d: %s" i why)))
                 None (List.mapi (fun i x -> (i, x)) (List.combine models os))
           with Failure m -> Some ("driver: " ^ m))
        | _ -> Some "PANIC-OR-MALFORMED line (the model is total)" in
      match res with
      | None -> ()
      | Some why ->
        incr bad;
        if !bad <= 20 then begin
          let input = (match String.rindex_opt line ';' with Some i -> String.sub line 0 i | None -> line) in
          Printf.printf "MISMATCH %d\n  case =%s\n  why  =%s\n" !n input why
        end
    done with End_of_file -> ());
  if !end_seen <> !n then begin
    Printf.printf "NO-VALID-END-MARKER (END says %d, %d lines read): the case file is truncated or not a C17 case file\n" !end_seen !n;
    exit 3
  end;
  Printf.printf "CALLS-COMPARED %d\n" !calls;
  Printf.printf "DEGENERATE-CALLS-NOT-COMPARED %d\n" !degenerate;
  Printf.printf "CASES %d MISMATCHES %d\n" !n !bad
