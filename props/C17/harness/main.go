// Harness for property C17 (bus load).  Uses only the PUBLIC API of acmelib.
//
// Generates buses from VERIF_SEED, calls CalculateBusLoad, converts every returned float64 to an
// exact rational, writes one line per call to VERIF_OUT for the extracted Coq model
// (props/C17/driver) and evaluates the C17 property predicates directly on the implementation's
// own numbers (PROPFAIL lines in VERIF_OUT.summary).
//
//	L;<baud>;<defs>;<builder>;<ifaces>;<obs>
//	    defs:    `,`-separated default cycle times: CalculateBusLoad is called once per default on
//	             the SAME bus, in this order
//	    builder: `<b>,<t>`; b: 0 default CAN-ID builder, 1 message id only, 2 node id only, 3 no
//	             operations (1-3 make the computed CAN-IDs of distinct messages collide);
//	             t: the BusType value set with Bus.SetType after the bus is built (0 = CAN 2.0A);
//	             a third component is the decoration seed (0 = plain bus), see build; a fourth
//	             is 1 when the bus is obtained through ImportDBCFile (see buildImported)
//	    ifaces:  `|`-separated interfaces (`-` = none), each `<node id>=` followed by a
//	             space-separated list of key:size:cycle:<message id>
//	    obs:     one per call, `~`-separated:
//	             ERR:neg | ERR:zero | ERR:other | OK:<load>:<key,bps,pct> <key,bps,pct> ...
//	             (numbers are exact rationals num/den of the float64 values, or NaN)
//	The model only sees baud, defaults, and key:size:cycle; ids and builder are there so that
//	distinct messages with equal CAN-IDs / names occur and a case can be replayed.
package main

import (
	"bufio"
	"errors"
	"fmt"
	"hash/fnv"
	"math"
	"math/big"
	"os"
	"sort"
	"strconv"
	"strings"

	"github.com/squadracorsepolito/acmelib"
)

type rng struct{ s uint64 }

func (r *rng) next() uint64 {
	r.s += 0x9E3779B97F4A7C15
	z := r.s
	z = (z ^ (z >> 30)) * 0xBF58476D1CE4E5B9
	z = (z ^ (z >> 27)) * 0x94D049BB133111EB
	return z ^ (z >> 31)
}
func (r *rng) below(n int) int { return int(r.next() % uint64(n)) }

type mspec struct{ key, size, cycle, mid int }
type bspec struct {
	baud, def int
	more      []int // further default cycle times for further calls on the same bus
	builder   int
	typ       int   // BusType value: 0 = BusTypeCAN2A (the only constant the library defines)
	dseed     uint64 // != 0: decorate the bus with everything the load must not depend on (see build)
	imp       bool   // the bus is obtained through ImportDBCFile of a DBC text generated from this spec
	nids      []int // node id per interface (nil: i+1)
	ifaces    [][]mspec
	family    string
}

func (b bspec) defs() []int { return append([]int{b.def}, b.more...) }
func (b bspec) nid(i int) int {
	if i < len(b.nids) {
		return b.nids[i]
	}
	return i + 1
}
func (m mspec) msgID() int {
	if m.mid != 0 {
		return m.mid
	}
	return m.key + 1
}

func (b bspec) msgs() []mspec {
	var out []mspec
	for _, i := range b.ifaces {
		out = append(out, i...)
	}
	return out
}

func (b bspec) input() string {
	var is []string
	for n, i := range b.ifaces {
		var ms []string
		for _, m := range i {
			ms = append(ms, fmt.Sprintf("%d:%d:%d:%d", m.key, m.size, m.cycle, m.msgID()))
		}
		is = append(is, fmt.Sprintf("%d=%s", b.nid(n), strings.Join(ms, " ")))
	}
	s := strings.Join(is, "|")
	if len(b.ifaces) == 0 {
		s = "-"
	}
	ds := make([]string, 0, 1+len(b.more))
	for _, d := range b.defs() {
		ds = append(ds, strconv.Itoa(d))
	}
	imp := 0
	if b.imp {
		imp = 1
	}
	return fmt.Sprintf("L;%d;%s;%d,%d,%d,%d;%s", b.baud, strings.Join(ds, ","), b.builder, b.typ, b.dseed, imp, s)
}

// build constructs the bus through the public API; msgOf maps the created messages to keys.
var specialNodeNames = []string{"Vector__XXX", "", "BO_", "BU_", "SG_", "VAL_"}

type built struct {
	bus     *acmelib.Bus
	keys    map[*acmelib.Message]int
	msgs    []*acmelib.Message
	nodes   []*acmelib.Node
	foreign []*acmelib.Message // messages of interfaces that are NOT on this bus
	deco    map[string]int     // what the decoration produced (statistics)
}

// build constructs the bus through the public API.  With b.dseed != 0 everything the load must
// NOT depend on is varied too, deterministically from dseed (so that a case can be replayed):
// nodes with up to 3 interfaces of which one (any index) is on this bus and the others carry
// their own messages on another bus or on no bus; static CAN-IDs (below and above 0x7FF, set
// before or after AddSentMessage); delay and start delay times below / equal to / above the cycle
// time; priority, send type, description, signals, receivers, attribute assignments.
func build(b bspec) (*built, error) {
	if b.imp {
		return buildImported(b)
	}
	bus := acmelib.NewBus("bus")
	bus.SetBaudrate(b.baud)
	switch b.builder {
	case 1:
		bus.SetCANIDBuilder(acmelib.NewCANIDBuilder("only_msg_id").UseMessageID(0, 11))
	case 2:
		bus.SetCANIDBuilder(acmelib.NewCANIDBuilder("only_node_id").UseNodeID(0, 8))
	case 3:
		bus.SetCANIDBuilder(acmelib.NewCANIDBuilder("no_operations"))
	case 4:
		// no 11-bit mask: wide message ids give CAN-IDs above 0x7FF
		bus.SetCANIDBuilder(acmelib.NewCANIDBuilder("wide").UseMessageID(0, 29).UseMessagePriority(29))
	}
	bt := &built{bus: bus, keys: map[*acmelib.Message]int{}, deco: map[string]int{}}
	keys := bt.keys
	deco := b.dseed != 0
	d := &rng{s: b.dseed}
	other := acmelib.NewBus("other")
	att, err := acmelib.NewIntegerAttribute("att", 0, 0, 1000)
	if err != nil {
		return nil, err
	}
	staticBase := []int{0x100, 0x7F0, 0x800, 0x1FFFFF00}[d.below(4)]
	nForeign := 0
	detached := map[*acmelib.Node]*acmelib.NodeInterface{} // an interface of the node that is on no bus
	var onBus []*acmelib.NodeInterface
	for i, ms := range b.ifaces {
		count, idx := 1, 0
		if deco {
			count = 1 + d.below(3)
			idx = d.below(count)
		}
		// node names: also the names the library treats specially somewhere (the DBC placeholder for
		// "no transmitter", the empty name, DBC keywords); unique on the bus as the library demands
		name := fmt.Sprintf("n%d", i)
		if deco && i < len(specialNodeNames) && d.below(2) == 0 {
			name = specialNodeNames[i]
			bt.deco["special-node-names"]++
		}
		node := acmelib.NewNode(name, acmelib.NodeID(b.nid(i)), count)
		bt.nodes = append(bt.nodes, node)
		// the other interfaces of a gateway node: own messages, on another bus or on none
		joinedOther := false
		for j, oi := range node.Interfaces() {
			if j == idx {
				continue
			}
			for k, n := 0, d.below(3); k < n; k++ {
				nForeign++
				fm := acmelib.NewMessage(fmt.Sprintf("f%d", nForeign), acmelib.MessageID(1+d.below(200)+1000*k), d.below(9))
				fm.SetCycleTime(d.below(50))
				if err := oi.AddSentMessage(fm); err != nil {
					return nil, err
				}
				bt.foreign = append(bt.foreign, fm)
				bt.deco["foreign-messages"]++
			}
			if !joinedOther && d.below(2) == 0 {
				if err := other.AddNodeInterface(oi); err != nil {
					return nil, err
				}
				joinedOther = true
				bt.deco["interfaces-on-another-bus"]++
			} else {
				bt.deco["interfaces-on-no-bus"]++
				detached[node] = oi
			}
		}
		names := map[string]bool{}
		ni := node.Interfaces()[idx]
		onBus = append(onBus, ni)
		// half of the interfaces get their messages before joining the bus, half after
		if i%2 == 0 {
			if err := bus.AddNodeInterface(ni); err != nil {
				return nil, err
			}
		}
		for _, m := range ms {
			// equal names on different interfaces are legal and wanted; unique within one
			name := fmt.Sprintf("m%d", m.msgID())
			if names[name] {
				name = fmt.Sprintf("m%d_%d", m.msgID(), m.key)
			}
			names[name] = true
			msg := acmelib.NewMessage(name, acmelib.MessageID(m.msgID()), m.size)
			msg.SetCycleTime(m.cycle)
			static, staticFirst := deco && d.below(4) == 0, d.below(2) == 0
			if static && staticFirst {
				if err := msg.SetStaticCANID(acmelib.CANID(staticBase + m.key)); err != nil {
					return nil, err
				}
			}
			if err := ni.AddSentMessage(msg); err != nil {
				return nil, err
			}
			if static && !staticFirst {
				if err := msg.SetStaticCANID(acmelib.CANID(staticBase + m.key)); err != nil {
					return nil, err
				}
			}
			if static {
				bt.deco["static-can-ids"]++
				if staticBase+m.key > 0x7FF {
					bt.deco["static-can-ids-above-0x7FF"]++
				}
			}
			if deco {
				eff := m.cycle
				if eff == 0 {
					eff = b.def
				}
				if eff <= 0 {
					eff = 100
				}
				times := []int{1, eff - 1, eff, eff + 1, 3 * eff, 3600000}
				if d.below(3) == 0 {
					msg.SetDelayTime(times[d.below(len(times))])
					bt.deco["delay-times"]++
				}
				if d.below(3) == 0 {
					msg.SetStartDelayTime(times[d.below(len(times))])
				}
				msg.SetPriority(acmelib.MessagePriority(d.below(4)))
				msg.SetSendType(acmelib.MessageSendType(d.below(5)))
				if d.below(2) == 0 {
					msg.SetDesc(fmt.Sprintf("message %d", m.key))
				}
				if m.size > 0 && d.below(3) == 0 {
					st, err := acmelib.NewIntegerSignalType(fmt.Sprintf("t%d", m.key), 1+d.below(m.size*8), d.below(2) == 0)
					if err != nil {
						return nil, err
					}
					sig, err := acmelib.NewStandardSignal(fmt.Sprintf("s%d", m.key), st)
					if err != nil {
						return nil, err
					}
					if err := msg.AppendSignal(sig); err != nil {
						return nil, err
					}
					bt.deco["signals"]++
				}
				if d.below(4) == 0 {
					if err := msg.AssignAttribute(att, d.below(1000)); err != nil {
						return nil, err
					}
				}
			}
			keys[msg] = m.key
			bt.msgs = append(bt.msgs, msg)
		}
		if i%2 == 1 {
			if err := bus.AddNodeInterface(ni); err != nil {
				return nil, err
			}
		}
	}
	// receivers: other interfaces of this bus (a message cannot be received by its sender)
	if deco && len(onBus) > 1 {
		for _, msg := range bt.msgs {
			if d.below(3) == 0 {
				rcv := onBus[d.below(len(onBus))]
				if rcv != msg.SenderNodeInterface() {
					if err := msg.AddReceiver(rcv); err != nil {
						return nil, err
					}
					bt.deco["receivers"]++
				}
			}
		}
	}
	// a message sent through an interface of this bus is ALSO added to another interface of the same
	// node that is on no bus (the library accepts it and moves the message's sender back-pointer
	// there, cf. the C05 finding about re-attaching): the interface on this bus still lists the
	// message, so it still counts, with the frame bits of THIS bus
	if deco {
		for _, msg := range bt.msgs {
			ni := msg.SenderNodeInterface()
			if oi, ok := detached[ni.Node()]; ok && oi != ni && d.below(3) == 0 {
				if err := oi.AddSentMessage(msg); err == nil {
					bt.deco["messages-also-on-a-detached-interface"]++
				}
			}
		}
	}
	if b.typ != 0 {
		// after the messages are in place: a bus of an undefined type refuses every message size
		bus.SetType(acmelib.BusType(b.typ))
	}
	return bt, nil
}

// buildImported obtains the bus through ImportDBCFile of a DBC text generated from the spec: node
// N<i> per interface, except that the LAST interface's messages have no transmitter (the DBC
// placeholder Vector__XXX, for which the importer keeps a node of that name on the bus); messages
// M<key> with BO_ id key+1 and their size; cycle times are set afterwards through the API.
func buildImported(b bspec) (*built, error) {
	var sb strings.Builder
	sb.WriteString("VERSION \"\"\n\nNS_ :\n\nBS_:\n\nBU_:")
	last := len(b.ifaces) - 1
	for i := range b.ifaces {
		if i != last {
			fmt.Fprintf(&sb, " N%d", i)
		}
	}
	sb.WriteString("\n\n")
	for i, ms := range b.ifaces {
		sender := fmt.Sprintf("N%d", i)
		if i == last {
			sender = "Vector__XXX"
		}
		for _, m := range ms {
			fmt.Fprintf(&sb, "BO_ %d M%d: %d %s\n", m.key+1, m.key, m.size, sender)
			if m.size > 0 {
				fmt.Fprintf(&sb, " SG_ s%d : 0|%d@1+ (1,0) [0|1] \"\" Vector__XXX\n", m.key, 1+m.key%(m.size*8))
			}
			sb.WriteString("\n")
		}
	}
	bus, err := acmelib.ImportDBCFile("bus", strings.NewReader(sb.String()))
	if err != nil {
		return nil, fmt.Errorf("ImportDBCFile of the generated text failed: %w\n%s", err, sb.String())
	}
	bus.SetBaudrate(b.baud)
	bt := &built{bus: bus, keys: map[*acmelib.Message]int{}, deco: map[string]int{"imported-buses": 1}}
	byName := map[string]*acmelib.Message{}
	for _, ni := range bus.NodeInterfaces() {
		bt.nodes = append(bt.nodes, ni.Node())
		for _, m := range ni.SentMessages() {
			byName[m.Name()] = m
		}
		if ni.Node().Name() == "Vector__XXX" {
			bt.deco["sender-less-messages"] += len(ni.SentMessages())
		}
	}
	for _, m := range b.msgs() {
		msg, ok := byName[fmt.Sprintf("M%d", m.key)]
		if !ok {
			return nil, fmt.Errorf("imported bus does not contain message M%d\n%s", m.key, sb.String())
		}
		if msg.SizeByte() != m.size {
			return nil, fmt.Errorf("imported message M%d has size %d, the file says %d", m.key, msg.SizeByte(), m.size)
		}
		msg.SetCycleTime(m.cycle)
		bt.keys[msg] = m.key
		bt.msgs = append(bt.msgs, msg)
	}
	if len(byName) != len(bt.msgs) {
		return nil, fmt.Errorf("imported bus has %d messages, the file has %d", len(byName), len(bt.msgs))
	}
	return bt, nil
}

// snapshot of everything CalculateBusLoad reads or could disturb, through public getters
func (bt *built) snapshot() string {
	var sb strings.Builder
	fmt.Fprintf(&sb, "baud=%d ifaces=%d", bt.bus.Baudrate(), len(bt.bus.NodeInterfaces()))
	for _, n := range bt.nodes {
		fmt.Fprintf(&sb, " node(%s,%d,ifaces=%d)", n.Name(), uint32(n.ID()), len(n.Interfaces()))
	}
	for _, m := range append(append([]*acmelib.Message{}, bt.msgs...), bt.foreign...) {
		fmt.Fprintf(&sb, " msg(%s,id=%d,canid=%d,size=%d,cycle=%d,delay=%d,start=%d,send=%d,prio=%d,static=%v,sender=%v,recv=%d,sigs=%d)", m.Name(), uint32(m.ID()), uint32(m.GetCANID()),
			m.SizeByte(), m.CycleTime(), m.DelayTime(), m.StartDelayTime(), int(m.SendType()), uint32(m.Priority()), m.HasStaticCANID(), m.SenderNodeInterface() != nil, len(m.Receivers()), len(m.Signals()))
	}
	return sb.String()
}

func ratOf(f float64) *big.Rat {
	if math.IsNaN(f) || math.IsInf(f, 0) {
		return nil
	}
	return new(big.Rat).SetFloat64(f)
}
func ratStr(r *big.Rat) string {
	if r == nil {
		return "NaN"
	}
	return r.String()
}

// ---- the documented figures, computed exactly (independent of the implementation)
func specBits(size int) int64 {
	return int64(size*8 + 19 + 25 + (34+size*8-1)/4)
}

// specTyp is the bus type the documented figures are computed for (set per bus by run); for an
// undefined type the code uses 0 header / trailer / stuffing-base bits
var specTyp = 0

func specBps(m mspec, def int) *big.Rat {
	if specTyp != 0 {
		c := m.cycle
		if c == 0 {
			c = def
		}
		if c <= 0 {
			return new(big.Rat)
		}
		return new(big.Rat).SetFrac(big.NewInt(int64(m.size*8+(m.size*8-1)/4)*1000), big.NewInt(int64(c)))
	}
	if m.cycle == 0 && def <= 0 {
		return new(big.Rat)
	}
	c := m.cycle
	if c == 0 {
		c = def
	}
	return new(big.Rat).SetFrac(big.NewInt(specBits(m.size)*1000), big.NewInt(int64(c)))
}
func specTotal(b bspec, def int) *big.Rat {
	t := new(big.Rat)
	for _, m := range b.msgs() {
		t.Add(t, specBps(m, def))
	}
	return t
}

// |x - want| <= |want| * n * 2^-50
func within(x, want *big.Rat, n int) bool {
	if x == nil {
		return false
	}
	if n < 1 {
		n = 1
	}
	d := new(big.Rat).Sub(x, want)
	d.Abs(d)
	bound := new(big.Rat).Abs(want)
	bound.Mul(bound, new(big.Rat).SetFrac(big.NewInt(int64(n)), new(big.Int).Lsh(big.NewInt(1), 50)))
	return d.Cmp(bound) <= 0
}

type result struct {
	err     error
	load    float64
	keys    []int
	bps     []float64
	pct     []float64
	unknown bool // an entry whose message is not one of the sent messages
}

func call(bt *built, def int) (res result, panicked any) {
	defer func() {
		if r := recover(); r != nil {
			panicked = r
		}
	}()
	bus, keys := bt.bus, bt.keys
	load, mls, err := acmelib.CalculateBusLoad(bus, def)
	res.err, res.load = err, load
	for _, ml := range mls {
		k, ok := keys[ml.Message]
		if !ok {
			k = -1 // not a message of this harness at all
			for _, f := range bt.foreign {
				if f == ml.Message {
					k = -2 // sent through an interface that is not on this bus
				}
			}
			res.unknown = true
		}
		res.keys = append(res.keys, k)
		res.bps = append(res.bps, ml.BitsPerSec)
		res.pct = append(res.pct, ml.Percentage)
	}
	return
}

func (res result) obs() string {
	if res.err != nil {
		switch {
		case errors.Is(res.err, acmelib.ErrIsNegative):
			return "ERR:neg"
		case errors.Is(res.err, acmelib.ErrIsZero):
			return "ERR:zero"
		}
		return "ERR:other"
	}
	es := make([]string, len(res.keys))
	for i := range res.keys {
		es[i] = fmt.Sprintf("%d,%s,%s", res.keys[i], ratStr(ratOf(res.bps[i])), ratStr(ratOf(res.pct[i])))
	}
	return "OK:" + ratStr(ratOf(res.load)) + ":" + strings.Join(es, " ")
}

type state struct {
	w        *bufio.Writer
	hist     map[string]int
	propfail map[string][2]string // kind -> (size key, detail)
	distinct map[string]bool
	calls    int
	lines    int // buses written to the case file (one line each)
	nontriv  int
	samples  []string
	prefix   string // history phase: prepended to the failure kind (a different kind of failure: state reached by mutators)
	note     string // history phase: the script that led to the state, put in front of "; case"
}

func (s *state) fail(kind string, n int, detail string) {
	kind = s.prefix + kind
	if s.note != "" {
		detail = strings.Replace(detail, "; case ", " [history on the built bus: "+s.note+"]; case ", 1)
	}
	key := fmt.Sprintf("%06d%06d", n, len(detail))
	if old, ok := s.propfail[kind]; !ok || key < old[0] {
		s.propfail[kind] = [2]string{key, detail}
	}
}

// run one bus: build it once, call CalculateBusLoad once per default cycle time on that same
// bus, record, evaluate the predicates on every call independently and check that no call
// changes anything observable; returns the load of the first call as an exact rational
func (s *state) run(b bspec) *big.Rat {
	input := b.input()
	msgs := b.msgs()
	n := len(msgs)
	specTyp = b.typ
	bt, err := build(b)
	if err != nil {
		panic("harness: could not build the bus: " + err.Error() + " case " + input)
	}
	s.hist[fmt.Sprintf("bus-type/%d", b.typ)]++
	before := bt.snapshot()
	for i, m := range bt.msgs {
		if m.CycleTime() != msgs[i].cycle || m.SizeByte() != msgs[i].size {
			panic("harness: message getters disagree with what was set")
		}
	}
	var obs []string
	var first *big.Rat
	loads := map[int]*big.Rat{}
	for ci, def := range b.defs() {
		s.calls++
		res, p := call(bt, def)
		if p != nil {
			s.fail("panic", n, fmt.Sprintf("panic %v (call %d, default %d); case %s", p, ci, def, input))
			obs = append(obs, "PANIC")
			continue
		}
		obs = append(obs, res.obs())
		l := s.checkCall(b, def, input, res)
		if ci == 0 {
			first = l
		}
		// the same default again on the same bus: same figures up to the summation order
		if prev, ok := loads[def]; ok && prev != nil && l != nil && !within(l, prev, 2*n) {
			s.fail("repeat-differs", n, fmt.Sprintf("two calls with default %d on the same bus give loads %v and %v; case %s", def, ratFloat(prev), ratFloat(l), input))
		}
		loads[def] = l
		// frame: a call changes nothing observable (cycle times, sizes, ids, CAN-IDs, membership)
		if after := bt.snapshot(); after != before {
			s.fail("call-mutates-state", n, fmt.Sprintf("call %d (default %d) changed the bus: before [%s] after [%s]; case %s", ci, def, before, after, input))
			before = after
		}
	}
	line := input + ";" + strings.Join(obs, "~")
	fmt.Fprintln(s.w, line)
	s.lines++
	if len(b.more) > 0 {
		s.hist["calls-per-bus/2+"]++
	} else {
		s.hist["calls-per-bus/1"]++
	}
	s.hist[fmt.Sprintf("builder/%d", b.builder)]++
	if b.dseed != 0 {
		s.hist["decorated-buses"]++
	}
	for k, v := range bt.deco {
		s.hist["decoration/"+k] += v
	}
	wide := 0
	for _, m := range bt.msgs {
		if m.GetCANID() > 0x7FF {
			wide++
		}
	}
	if wide > 0 {
		s.hist["buses-with-can-ids-above-0x7FF"]++
	}
	// distinct messages with equal computed CAN-IDs / equal names (legal)
	ids, names := map[uint32]int{}, map[string]int{}
	for _, m := range bt.msgs {
		ids[uint32(m.GetCANID())]++
		names[m.Name()]++
	}
	if len(ids) < n {
		s.hist["buses-with-colliding-can-ids"]++
	}
	if len(names) < n {
		s.hist["buses-with-equal-message-names"]++
	}

	// ---- statistics
	s.hist["family/"+b.family]++
	switch {
	case n == 0:
		s.hist["msgs/0"]++
	case n == 1:
		s.hist["msgs/1"]++
	case n <= 5:
		s.hist["msgs/2-5"]++
	case n <= 20:
		s.hist["msgs/6-20"]++
	default:
		s.hist["msgs/21-40"]++
	}
	switch {
	case b.baud == 0:
		s.hist["baud/0"]++
	case b.baud < 0:
		s.hist["baud/negative"]++
	default:
		s.hist["baud/positive"]++
	}
	s.hist[fmt.Sprintf("interfaces/%d", min(len(b.ifaces), 6))]++

	// ---- coverage bookkeeping
	rates := map[string]bool{}
	var rs []*big.Rat
	for _, m := range msgs {
		r := specBps(m, b.def)
		rates[r.String()] = true
		rs = append(rs, r)
	}
	sort.Slice(rs, func(i, j int) bool { return rs[i].Cmp(rs[j]) > 0 })
	near := 0
	for i := 0; i+1 < len(rs); i++ {
		d := new(big.Rat).Sub(rs[i], rs[i+1])
		if d.Sign() > 0 && d.Cmp(big.NewRat(1, 1)) < 0 {
			near++
		}
	}
	if near > 0 {
		s.hist["buses-with-rates-differing-by-less-than-1"]++
	}
	if len(rates) < n {
		s.hist["buses-with-equal-rates"]++
	}
	if !s.distinct[input] {
		s.distinct[input] = true
		if len(rates) >= 2 {
			s.nontriv++
		}
	}
	if len(s.samples) < 6 && s.calls%97 == 3 && n <= 6 {
		s.samples = append(s.samples, line)
	}
	s.history(bt, b, input)
	return first
}

// history: the property quantifies over all buses, also those whose messages were changed after
// they were attached.  On the bus just built, a few public mutators are applied to sent messages
// (UpdateSizeByte with sizes the bus accepts, sizes it refuses (above 8 / negative / too small for
// the signals), the current size; SetCycleTime), deterministically from the case text (so a case
// replays).  After EVERY step the inputs of the estimate are read back through the public getters
// (SizeByte, CycleTime) and the same predicates as for a fresh bus are evaluated against them; a
// refused step must leave the public state and the figures as they were; an accepted enlargement /
// shortening must not lower the load (0 < baud).  Failure kinds get the prefix "history-".
func (s *state) history(bt *built, b bspec, input string) {
	if len(bt.msgs) == 0 || b.typ != 0 {
		// undefined bus type: every size is refused and empty messages give NaN shares (open
		// finding c17-nan-unknown-bus-type, outside the property's domain) - no history there
		return
	}
	h := fnv.New64a()
	h.Write([]byte(input))
	r := &rng{s: h.Sum64() ^ 0x4157}
	def := b.def
	if def <= 0 {
		def = 1 + r.below(1000)
	}
	n := len(bt.msgs)
	cur := func() bspec {
		v := bspec{baud: b.baud, def: def, family: b.family, builder: b.builder, nids: b.nids, typ: b.typ, dseed: b.dseed, imp: b.imp}
		i := 0
		for _, ifc := range b.ifaces {
			ni := append([]mspec{}, ifc...)
			for j := range ni {
				ni[j].size, ni[j].cycle = bt.msgs[i].SizeByte(), bt.msgs[i].CycleTime()
				i++
			}
			v.ifaces = append(v.ifaces, ni)
		}
		return v
	}
	defer func() { s.prefix, s.note = "", "" }()
	var script []string
	var prevLoad *big.Rat
	steps := 3
	for st := 0; st < steps; st++ {
		mi := r.below(n)
		m := bt.msgs[mi]
		oldSize, oldCycle := m.SizeByte(), m.CycleTime()
		before := bt.snapshot()
		var err error
		var what string
		sizeStep := true
		switch k := r.below(6); k {
		case 0, 1: // above what a CAN 2.0A bus carries
			ns := 9 + r.below(8)
			if k == 1 {
				ns = 9
			}
			err = m.UpdateSizeByte(ns)
			what = fmt.Sprintf("msg key %d UpdateSizeByte(%d)", mi, ns)
		case 2:
			ns := r.below(9)
			err = m.UpdateSizeByte(ns)
			what = fmt.Sprintf("msg key %d UpdateSizeByte(%d)", mi, ns)
		case 3:
			ns := -1 - r.below(3)
			err = m.UpdateSizeByte(ns)
			what = fmt.Sprintf("msg key %d UpdateSizeByte(%d)", mi, ns)
		case 4:
			err = m.UpdateSizeByte(oldSize)
			what = fmt.Sprintf("msg key %d UpdateSizeByte(%d) (its size)", mi, oldSize)
		default:
			sizeStep = false
			nc := r.cycle()
			m.SetCycleTime(nc)
			what = fmt.Sprintf("msg key %d SetCycleTime(%d)", mi, nc)
		}
		verdict := "accepted"
		if err != nil {
			verdict = "refused"
		}
		script = append(script, what+" "+verdict)
		s.note = strings.Join(script, ", ")
		s.prefix = "history-"
		s.hist["history/steps"]++
		if sizeStep {
			s.hist["history/size-step-"+verdict]++
		} else {
			s.hist["history/cycle-step"]++
		}
		if err != nil {
			if after := bt.snapshot(); after != before {
				s.fail("refused-change-mutates-state", n, fmt.Sprintf("a refused change (%v) changed the public state: before [%s] after [%s]; case %s", err, before, after, input))
			}
		}
		v := cur()
		s.hist["history/calls"]++
		res, p := call(bt, def)
		if p != nil {
			s.fail("panic", n, fmt.Sprintf("panic %v (default %d); case %s", p, def, input))
			return
		}
		l := s.checkCall(v, def, input, res)
		if l != nil && prevLoad != nil && b.baud > 0 {
			newSize, newCycle := m.SizeByte(), m.CycleTime()
			slack := new(big.Rat).Mul(new(big.Rat).Abs(prevLoad), new(big.Rat).SetFrac(big.NewInt(int64(2*n)), new(big.Int).Lsh(big.NewInt(1), 50)))
			down := new(big.Rat).Add(l, slack).Cmp(prevLoad) < 0
			up := new(big.Rat).Sub(l, slack).Cmp(prevLoad) > 0
			effOld, effNew := oldCycle, newCycle
			if effOld == 0 {
				effOld = def
			}
			if effNew == 0 {
				effNew = def
			}
			switch {
			case newSize == oldSize && effNew == effOld:
				if down || up {
					s.fail("unchanged-inputs-load-differs", n, fmt.Sprintf("a step that left every size and cycle time as it was changed the load from %v to %v; case %s", ratFloat(prevLoad), ratFloat(l), input))
				}
			case newSize >= oldSize && effNew <= effOld:
				if down {
					s.fail("monotone-in-place", n, fmt.Sprintf("enlarging a message / shortening its cycle in place (size %d -> %d, cycle %d -> %d) lowers the load from %v to %v; case %s", oldSize, newSize, effOld, effNew, ratFloat(prevLoad), ratFloat(l), input))
				}
			}
		}
		if l != nil {
			prevLoad = l
		} else if st == 0 && b.baud != 0 {
			return
		}
	}
}


// checkCall evaluates the property predicates on the figures of one call
func (s *state) checkCall(b bspec, def int, input string, res result) *big.Rat {
	msgs := b.msgs()
	n := len(msgs)
	switch {
	case def < 0:
		s.hist["default/negative"]++
	case def == 0:
		s.hist["default/0"]++
	default:
		s.hist["default/positive"]++
	}
	// ---- refusal / zero baud
	if def <= 0 {
		if res.err == nil {
			s.fail("default-not-refused", n, fmt.Sprintf("default cycle time %d accepted (load %v); case %s", def, res.load, input))
		} else {
			var ae *acmelib.ArgumentError
			want := acmelib.ErrIsZero
			if def < 0 {
				want = acmelib.ErrIsNegative
			}
			if !errors.As(res.err, &ae) || !errors.Is(res.err, want) {
				s.fail("default-refusal-kind", n, fmt.Sprintf("default cycle time %d refused with %v, documented ArgumentError wrapping %v; case %s", def, res.err, want, input))
			}
		}
		return nil
	}
	if res.err != nil {
		s.fail("positive-default-refused", n, fmt.Sprintf("default cycle time %d refused: %v; case %s", def, res.err, input))
		return nil
	}
	if b.baud == 0 {
		if res.load != 0 {
			s.fail("zero-baud", n, fmt.Sprintf("baud rate 0 gives load %v, documented 0; case %s", res.load, input))
		}
		return nil
	}

	// ---- each message exactly once
	seen := map[int]int{}
	for _, k := range res.keys {
		seen[k]++
	}
	permOK := len(res.keys) == n && !res.unknown
	for _, m := range msgs {
		if seen[m.key] != 1 {
			permOK = false
		}
	}
	if !permOK {
		s.fail("each-message-once", n, fmt.Sprintf("entries list messages %v (-2: a message sent through an interface that is not on this bus, -1: unknown object), the messages sent through interfaces attached to this bus are keys 0..%d once each; case %s", res.keys, n-1, input))
	}

	// ---- numbers: load, per-message rate and share, against the documented formula (exact)
	tot := specTotal(b, def)
	loadR := ratOf(res.load)
	wantLoad := new(big.Rat).Quo(tot, new(big.Rat).SetInt64(int64(b.baud)))
	wantLoad.Mul(wantLoad, big.NewRat(100, 1))
	if !within(loadR, wantLoad, n) {
		s.fail("load-value", n, fmt.Sprintf("load %v (= %s), documented sum of frame bits per cycle / baud * 100 = %s (%v), outside relative bound %d*2^-50; case %s", res.load, ratStr(loadR), wantLoad.String(), ratFloat(wantLoad), max(n, 1), input))
	}
	byKey := map[int]mspec{}
	for _, m := range msgs {
		byKey[m.key] = m
	}
	sumPct := new(big.Rat)
	sumBps := new(big.Rat)
	nan := false
	for i, k := range res.keys {
		br, pr := ratOf(res.bps[i]), ratOf(res.pct[i])
		if br == nil || pr == nil {
			nan = true
			continue
		}
		sumPct.Add(sumPct, pr)
		sumBps.Add(sumBps, br)
		if m, ok := byKey[k]; ok {
			if !within(br, specBps(m, def), 1) {
				s.fail("entry-bps", n, fmt.Sprintf("message key %d (size %d, cycle %d): BitsPerSec %v, documented %s; case %s", k, m.size, m.cycle, res.bps[i], specBps(m, def).String(), input))
			}
		}
	}
	if nan {
		kind := "nan"
		if b.typ != 0 {
			kind = "nan-unknown-bus-type"
		}
		s.fail(kind, n, fmt.Sprintf("NaN/Inf among the returned figures (bus type %d); case %s", b.typ, input))
	} else if n > 0 && permOK {
		// share of the total, on the implementation's own numbers
		for i := range res.keys {
			br, pr := ratOf(res.bps[i]), ratOf(res.pct[i])
			want := new(big.Rat).Quo(br, sumBps)
			want.Mul(want, big.NewRat(100, 1))
			if !within(pr, want, n) {
				s.fail("entry-pct", n, fmt.Sprintf("message key %d: Percentage %v, its share BitsPerSec/sum*100 is %v; case %s", res.keys[i], res.pct[i], ratFloat(want), input))
			}
		}
		if !within(sumPct, big.NewRat(100, 1), n) {
			s.fail("shares-sum", n, fmt.Sprintf("percentages sum to %v, not 100 within %d*2^-50; case %s", ratFloat(sumPct), n, input))
		}
	}

	// ---- order: non-increasing bits per second, on the implementation's own floats
	for i := 0; i+1 < len(res.bps); i++ {
		if res.bps[i] < res.bps[i+1] {
			kind := "sorted-diff-ge-1"
			if res.bps[i+1]-res.bps[i] < 1 {
				kind = "sorted-diff-lt-1"
			}
			s.fail(kind, n, fmt.Sprintf("entry %d has %v bits/s, entry %d has %v bits/s (increasing by %v); case %s", i, res.bps[i], i+1, res.bps[i+1], res.bps[i+1]-res.bps[i], input))
			break
		}
	}

	return loadR
}

func ratFloat(r *big.Rat) float64 { f, _ := r.Float64(); return f }

// monotonicity: re-run with one message enlarged / its cycle shortened
func (s *state) monotone(r *rng, b bspec, load *big.Rat) {
	msgs := b.msgs()
	if len(msgs) == 0 || b.def <= 0 || (load == nil && b.baud != 0) {
		return
	}
	// the property claims this for every non-zero baud rate; the theorems need 0 < baud
	// (monotone_size_pos_baud / antitone_cycle_pos_baud), a negative baud rate refutes the claim
	// (monotone_negative_baud_refuted) and a zero one keeps the load at 0 (monotone_zero_baud)
	suffix := ""
	switch {
	case b.baud < 0:
		suffix = "-negative-baud"
	case b.baud == 0:
		suffix = "-zero-baud"
	}
	n := len(msgs)
	pick := msgs[r.below(n)].key
	variant := func(f func(m *mspec)) bspec {
		v := bspec{baud: b.baud, def: b.def, family: b.family, builder: b.builder, nids: b.nids, typ: b.typ, dseed: b.dseed, imp: b.imp}
		for _, i := range b.ifaces {
			ni := append([]mspec{}, i...)
			for j := range ni {
				if ni[j].key == pick {
					f(&ni[j])
				}
			}
			v.ifaces = append(v.ifaces, ni)
		}
		return v
	}
	lower := func(l2 *big.Rat) bool { // l2 >= load * (1 - n*2^-50)
		if l2 == nil {
			return false
		}
		slack := new(big.Rat).Mul(new(big.Rat).Abs(load), new(big.Rat).SetFrac(big.NewInt(int64(n)), new(big.Int).Lsh(big.NewInt(1), 50)))
		return new(big.Rat).Add(l2, slack).Cmp(load) >= 0
	}
	var old mspec
	for _, m := range msgs {
		if m.key == pick {
			old = m
		}
	}
	if old.size < 8 {
		ns := old.size + 1 + r.below(8-old.size)
		v := variant(func(m *mspec) { m.size = ns })
		v.family = "monotone-size"
		l2 := s.run(v)
		s.hist["monotone/size-checked"+suffix]++
		// zero baud: both loads are 0 (checked call by call as `zero-baud`), nothing decreases
		if b.baud != 0 && !lower(l2) {
			s.fail("monotone-size"+suffix, n, fmt.Sprintf("enlarging message key %d from %d to %d bytes lowers the load from %v to %v; case %s", pick, old.size, ns, ratFloat(load), ratStr(l2), b.input()))
		}
	}
	eff := old.cycle
	if eff == 0 {
		eff = b.def
	}
	if eff > 1 {
		nc := 1 + r.below(eff-1)
		if r.below(3) == 0 {
			nc = eff - 1
		}
		v := variant(func(m *mspec) { m.cycle = nc })
		v.family = "antitone-cycle"
		l2 := s.run(v)
		s.hist["monotone/cycle-checked"+suffix]++
		if b.baud != 0 && !lower(l2) {
			s.fail("antitone-cycle"+suffix, n, fmt.Sprintf("shortening the cycle of message key %d from %d to %d ms lowers the load from %v to %v; case %s", pick, eff, nc, ratFloat(load), ratStr(l2), b.input()))
		}
	}
}

// ---------------------------------------------------------------- generators
func (r *rng) baud() int {
	switch r.below(12) {
	case 0:
		return 0
	case 1, 2:
		return 125000
	case 3, 4, 5:
		return 500000
	case 6, 7:
		return 1000000
	case 8:
		if r.below(4) == 0 {
			return -(1 + r.below(1000000))
		}
		return 1
	default:
		return 1 + r.below(2000000)
	}
}

func (r *rng) def() int {
	switch r.below(14) {
	case 0:
		return -1
	case 1:
		return 0
	case 2:
		return 1
	case 3, 4, 5:
		return 100
	case 6:
		return []int{math.MinInt64, -1000, 3600000, math.MaxInt32}[r.below(4)]
	default:
		return 1 + r.below(10000)
	}
}

func (r *rng) size() int {
	switch r.below(5) {
	case 0:
		return 0
	case 1:
		return 8
	default:
		return r.below(9)
	}
}

func (r *rng) cycle() int {
	switch r.below(8) {
	case 0, 1:
		return 0
	case 2:
		return []int{1, 2, 10, 100, 1000, 3599999, 3600000}[r.below(7)]
	case 3:
		return 1 + r.below(100)
	default:
		return 1 + r.below(3600000)
	}
}

// distribute the messages over 0..5 interfaces (some interfaces stay empty)
func (r *rng) distribute(ms []mspec) [][]mspec {
	ni := r.below(6)
	if len(ms) > 0 && ni == 0 {
		ni = 1
	}
	out := make([][]mspec, ni)
	for _, m := range ms {
		i := r.below(ni)
		out[i] = append(out[i], m)
	}
	return out
}

func (r *rng) genBus() bspec {
	b := bspec{baud: r.baud(), def: r.def()}
	var n int
	switch r.below(10) {
	case 0:
		n = 0
	case 1:
		n = 1
	case 2, 3, 4:
		n = 2 + r.below(5)
	case 5, 6, 7:
		n = 5 + r.below(16)
	default:
		n = 20 + r.below(21)
	}
	ms := make([]mspec, n)
	fam := r.below(10)
	switch {
	case fam < 4:
		b.family = "mixed"
		for i := range ms {
			ms[i] = mspec{i, r.size(), r.cycle(), 0}
		}
	case fam < 6:
		// slow messages: every rate is below 1.2 bit/s, so all rates differ by less than 1
		b.family = "slow-rates-below-1"
		for i := range ms {
			ms[i] = mspec{i, r.size(), 120000 + r.below(3480001), 0}
		}
	case fam < 8:
		// neighbouring cycle times around a base: rates differ by fractions of a bit/s
		b.family = "neighbouring-cycles"
		base := 400 + r.below(20000)
		sz := r.size()
		for i := range ms {
			ms[i] = mspec{i, sz, base + r.below(2*n+2), 0}
			if r.below(6) == 0 {
				ms[i].size = r.size()
			}
		}
	case fam < 9:
		// default cycle for most: many exactly equal rates plus a few others
		b.family = "default-cycle-ties"
		for i := range ms {
			ms[i] = mspec{i, []int{0, 8, r.size()}[r.below(3)], 0, 0}
			if r.below(5) == 0 {
				ms[i].cycle = r.cycle()
			}
		}
		if b.def <= 0 && r.below(2) == 0 {
			b.def = 1 + r.below(1000)
		}
	default:
		// rates straddling an integer boundary by less than 1 (truncation towards zero of a difference)
		b.family = "fast-close"
		for i := range ms {
			ms[i] = mspec{i, r.below(9), 1 + r.below(3), 0}
		}
	}
	b.ifaces = r.distribute(ms)
	r.decorate(&b)
	// now and then the bus comes out of the DBC importer (with sender-less messages on the
	// placeholder node Vector__XXX)
	if r.below(10) == 0 && len(ms) > 0 {
		b.imp, b.builder, b.dseed, b.nids = true, 0, 0, nil
		for i := range b.ifaces {
			for j := range b.ifaces[i] {
				b.ifaces[i][j].mid = 0
			}
		}
		return b
	}
	// an undefined bus type value now and then (frame constants 0; the theorems about monotonicity
	// and the float link cover it): at least one non-empty message, so that the total is not 0
	if r.below(30) == 0 && len(ms) > 0 {
		b.typ = 1 + r.below(3)
		for i := range b.ifaces {
			for j := range b.ifaces[i] {
				if b.ifaces[i][j].size == 0 && r.below(3) > 0 {
					b.ifaces[i][j].size = 1 + r.below(8)
				}
			}
		}
		if len(b.ifaces) > 0 {
			for i := range b.ifaces {
				if len(b.ifaces[i]) > 0 {
					if b.ifaces[i][0].size == 0 {
						b.ifaces[i][0].size = 1 + r.below(8)
					}
					break
				}
			}
		}
	}
	return b
}

// decorate chooses what the model does not see: the CAN-ID builder of the bus, node and message ids
// (deliberately colliding computed CAN-IDs for distinct messages, which is legal), and further
// default cycle times for further calls on the same bus.
func (r *rng) decorate(b *bspec) {
	switch x := r.below(10); {
	case x < 6:
		b.builder = 0
	case x < 8:
		b.builder = 1
	case x < 9:
		b.builder = 2
	default:
		b.builder = 3 + r.below(2)
	}
	if r.below(10) < 7 {
		b.dseed = 1 + r.next()>>1
	}
	if r.below(10) < 4 {
		// node ids that agree in the low 4 bits (all, or in two groups); message ids from a small
		// set, also congruent modulo 128; unique within an interface as the library demands
		base := 1 + r.below(15)
		for i := range b.ifaces {
			nid := base + 16*i
			if r.below(4) == 0 {
				nid = (base+1)%16 + 16*(i+1)
			}
			b.nids = append(b.nids, nid)
		}
		for i := range b.ifaces {
			used := map[int]bool{}
			for j := range b.ifaces[i] {
				mid := 1 + r.below(3) + 128*r.below(3)
				for used[mid] {
					mid += 128
				}
				if r.below(4) == 0 {
					mid += 0x800 * (1 + r.below(1000)) // does not fit in 11 bits
				}
				for used[mid] {
					mid += 128
				}
				used[mid] = true
				b.ifaces[i][j].mid = mid
			}
		}
	}
	if r.below(2) == 0 {
		for i, n := 0, 1+r.below(3); i < n; i++ {
			switch r.below(5) {
			case 0:
				b.more = append(b.more, b.def)
			case 1:
				b.more = append(b.more, b.def+1+r.below(50))
			case 2:
				b.more = append(b.more, 100)
			default:
				b.more = append(b.more, r.def())
			}
		}
	}
}

func main() {
	out := os.Getenv("VERIF_OUT")
	if out == "" {
		fmt.Fprintln(os.Stderr, "VERIF_OUT not set")
		os.Exit(2)
	}
	seed, _ := strconv.ParseUint(os.Getenv("VERIF_SEED"), 10, 64)
	thorough := os.Getenv("VERIF_TIER") == "thorough"
	f, err := os.Create(out)
	if err != nil {
		panic(err)
	}
	s := &state{w: bufio.NewWriterSize(f, 1<<20), hist: map[string]int{}, propfail: map[string][2]string{}, distinct: map[string]bool{}}
	r := &rng{s: seed ^ 0xC17C17C17}

	if rp := os.Getenv("VERIF_REPLAY_CASE"); rp != "" {
		b := parseCase(rp)
		// map iteration order is random: repeat the call so that order-dependent outcomes show
		for i := 0; i < 40; i++ {
			l := s.run(b)
			s.monotone(r, b, l)
		}
	} else {
		nb := 500
		if thorough {
			nb = 20000
		}
		// fixed small cases first: the test-suite's fixture and its neighbours
		fixed := []bspec{
			{baud: 250000, def: 500, family: "fixed", ifaces: [][]mspec{{{0, 8, 100, 0}, {1, 8, 10, 0}}}},
			{baud: 250000, def: 500, family: "fixed", ifaces: nil},
			{baud: 250000, def: 500, family: "fixed", ifaces: [][]mspec{{}}},
			{baud: 500000, def: 100, family: "fixed", ifaces: [][]mspec{{{0, 0, 0, 0}}, {{1, 8, 0, 0}}}},
			{baud: 500000, def: 1, family: "fixed", ifaces: [][]mspec{{{0, 8, 0, 0}, {1, 8, 1, 0}, {2, 7, 1, 0}}}},
			{baud: 125000, def: 100, family: "fixed", ifaces: [][]mspec{{{0, 8, 1000, 0}, {1, 8, 1001, 0}, {2, 8, 1002, 0}}}},
			{baud: 125000, def: 100, family: "fixed", ifaces: [][]mspec{{{0, 8, 1002, 0}}, {{1, 8, 1001, 0}}, {{2, 8, 1000, 0}}}},
			{baud: 0, def: 100, family: "fixed", ifaces: [][]mspec{{{0, 8, 10, 0}}}},
			{baud: 0, def: 0, family: "fixed", ifaces: [][]mspec{{{0, 8, 10, 0}}}},
			{baud: 0, def: -1, family: "fixed", ifaces: [][]mspec{{{0, 8, 10, 0}}}},
			{baud: 500000, def: 0, family: "fixed", ifaces: [][]mspec{{{0, 8, 10, 0}}}},
			{baud: 500000, def: -1, family: "fixed", ifaces: [][]mspec{{{0, 8, 10, 0}}}},
			// outside the theorems' hypotheses: negative baud rate, undefined bus type with empty messages
			{baud: -250000, def: 500, family: "fixed", ifaces: [][]mspec{{{0, 8, 100, 0}, {1, 8, 10, 0}}, {}, {{2, 0, 0, 0}}}},
			{baud: 0, def: 500, family: "fixed", ifaces: [][]mspec{{{0, 8, 100, 0}, {1, 0, 0, 0}}}},
			{baud: 500000, def: 100, typ: 1, family: "fixed", ifaces: [][]mspec{{{0, 0, 10, 0}}}},
			{baud: 500000, def: 100, typ: 1, family: "fixed", ifaces: [][]mspec{{{0, 0, 10, 0}, {1, 0, 0, 0}}, {{2, 0, 7, 0}}}},
			{baud: 500000, def: 100, typ: 1, family: "fixed", ifaces: [][]mspec{{{0, 0, 10, 0}, {1, 3, 0, 0}}}},
			// buses obtained through ImportDBCFile; the last interface's messages have no transmitter
			{baud: 500000, def: 100, imp: true, family: "fixed", ifaces: [][]mspec{{{0, 8, 100, 0}}, {}, {{1, 4, 0, 0}, {2, 0, 10, 0}}}},
			{baud: 125000, def: 50, imp: true, family: "fixed", ifaces: [][]mspec{{{0, 8, 0, 0}, {1, 2, 20, 0}}}},
			// several calls on the same bus with different defaults (and the same one twice)
			{baud: 500000, def: 100, more: []int{250, 100, 0, 250, -1, 7}, family: "fixed", ifaces: [][]mspec{{{0, 8, 0, 0}, {1, 4, 0, 0}, {2, 8, 10, 0}}}},
			{baud: 125000, def: 1, more: []int{3600000, 1}, family: "fixed", ifaces: [][]mspec{{{0, 0, 0, 0}}, {{1, 8, 0, 0}}}},
			// distinct messages with the same computed CAN-ID: node ids 1 and 17 under the default
			// builder (low 4 bits of the node id), message ids 5 and 133 (low 7 bits), custom builders
			{baud: 500000, def: 100, nids: []int{1, 17}, family: "fixed", ifaces: [][]mspec{{{0, 8, 100, 5}}, {{1, 8, 100, 5}}}},
			{baud: 500000, def: 100, nids: []int{1, 17, 33}, family: "fixed", ifaces: [][]mspec{{{0, 8, 100, 5}, {1, 2, 50, 133}}, {{2, 8, 10, 5}}, {{3, 1, 0, 261}}}},
			{baud: 500000, def: 100, builder: 1, family: "fixed", ifaces: [][]mspec{{{0, 8, 100, 7}}, {{1, 3, 20, 7}}}},
			{baud: 500000, def: 100, builder: 2, family: "fixed", ifaces: [][]mspec{{{0, 8, 100, 1}, {1, 3, 20, 2}, {2, 0, 0, 3}}}},
			{baud: 500000, def: 100, builder: 3, family: "fixed", ifaces: [][]mspec{{{0, 8, 100, 1}, {1, 3, 20, 2}}, {{2, 5, 0, 1}}}},
		}
		for _, b := range fixed {
			l := s.run(b)
			s.monotone(r, b, l)
		}
		for i := 0; i < nb; i++ {
			b := r.genBus()
			l := s.run(b)
			s.monotone(r, b, l)
			// the same bus again (another map order): the figures may differ only within the bound
			if i%5 == 0 {
				b2 := b
				b2.family = "repeat"
				b2.more = nil
				l2 := s.run(b2)
				if l != nil && l2 != nil && !within(l2, l, 2*len(b.msgs())) {
					s.fail("repeat-differs", len(b.msgs()), fmt.Sprintf("two calls on the same bus give loads %v and %v; case %s", ratFloat(l), ratFloat(l2), b.input()))
				}
			}
		}
	}

	// END marker: the driver refuses a case file without it (truncated / wrong file)
	fmt.Fprintf(s.w, "END %d\n", s.lines)
	if err := s.w.Flush(); err != nil {
		panic(err)
	}
	if err := f.Close(); err != nil {
		panic(err)
	}
	sf, err := os.Create(out + ".summary")
	if err != nil {
		panic(err)
	}
	sw := bufio.NewWriter(sf)
	fmt.Fprintf(sw, "calls %d\nlines %d\nnontrivial %d\ndistinct %d\n", s.calls, s.lines, s.nontriv, len(s.distinct))
	keys := make([]string, 0, len(s.hist))
	for k := range s.hist {
		keys = append(keys, k)
	}
	sort.Strings(keys)
	for _, k := range keys {
		fmt.Fprintf(sw, "hist %s %d\n", k, s.hist[k])
	}
	for k, v := range s.propfail {
		fmt.Fprintf(sw, "PROPFAIL %s %s\n", k, strings.ReplaceAll(v[1], "\n", " "))
	}
	for _, l := range s.samples {
		fmt.Fprintf(sw, "SAMPLE %s\n", l)
	}
	if err := sw.Flush(); err != nil {
		panic(err)
	}
	if err := sf.Close(); err != nil {
		panic(err)
	}
}

func atoi(x string) int {
	v, err := strconv.ParseInt(x, 10, 64)
	if err != nil {
		panic("bad int " + x)
	}
	return int(v)
}

func parseCase(line string) bspec {
	f := strings.Split(line, ";")
	ds := strings.Split(f[2], ",")
	bt := strings.Split(f[3], ",")
	b := bspec{baud: atoi(f[1]), def: atoi(ds[0]), builder: atoi(bt[0]), family: "replay"}
	if len(bt) > 1 {
		b.typ = atoi(bt[1])
	}
	if len(bt) > 2 {
		ds, _ := strconv.ParseUint(bt[2], 10, 64)
		b.dseed = ds
	}
	if len(bt) > 3 {
		b.imp = bt[3] == "1"
	}
	for _, d := range ds[1:] {
		b.more = append(b.more, atoi(d))
	}
	if f[4] != "-" {
		for _, is := range strings.Split(f[4], "|") {
			nid, rest, _ := strings.Cut(is, "=")
			b.nids = append(b.nids, atoi(nid))
			ms := []mspec{}
			for _, t := range strings.Fields(rest) {
				p := strings.Split(t, ":")
				ms = append(ms, mspec{atoi(p[0]), atoi(p[1]), atoi(p[2]), atoi(p[3])})
			}
			b.ifaces = append(b.ifaces, ms)
		}
	}
	return b
}
