#!/usr/bin/env python3
"""Mutation self-test for C17 (development aid, not a registered command).
Applies small semantic mutants of the anchored code to a scratch worktree of /repo (never to
/repo), checks that `go test ./...` still passes there (i.e. the test-suite does not see the
mutant) and that `VERIF_REPO=<worktree> ./check C17 --tier quick` reports a VIOLATION.
usage: mutate.py <worktree>   (git -C /repo worktree add -b mut-C17 /tmp/wt/C17 main)"""
import os, subprocess, sys, time

MUTANTS = [
    ("stuffing-divisor-5", "utils.go", "(headerStuffingBits + tmpMsg.sizeByte*8 - 1) / 4", "(headerStuffingBits + tmpMsg.sizeByte*8 - 1) / 5"),
    ("stuffing-payload-bits-dropped", "utils.go", "(headerStuffingBits + tmpMsg.sizeByte*8 - 1) / 4", "(headerStuffingBits + tmpMsg.sizeByte - 1) / 4"),
    ("header-bits-18", "utils.go", "headerBits = 19", "headerBits = 18"),
    ("default-applied-when-cycle-nonzero", "utils.go", "\t\t\tif cycleTime == 0 {", "\t\t\tif cycleTime != 0 {"),
    ("default-applied-when-cycle-one", "utils.go", "\t\t\tif cycleTime == 0 {", "\t\t\tif cycleTime <= 1 {"),
    ("percentage-from-baudrate", "utils.go", "tmpMsgLoad.BitsPerSec / totConsumedBitsPerSec * 100", "tmpMsgLoad.BitsPerSec / float64(bus.baudrate) * 100"),
    ("sort-ascending", "utils.go", "cmp.Compare(b.BitsPerSec, a.BitsPerSec)", "cmp.Compare(a.BitsPerSec, b.BitsPerSec)"),
    ("sort-truncating-comparator-again", "utils.go", "return cmp.Compare(b.BitsPerSec, a.BitsPerSec)", "return int(b.BitsPerSec-a.BitsPerSec) + 0*cmp.Compare(0, 0)"),
    ("sort-rounding-comparator", "utils.go", "return cmp.Compare(b.BitsPerSec, a.BitsPerSec)", "return cmp.Compare(float32(b.BitsPerSec), float32(a.BitsPerSec))"),
    ("integer-division-of-rate", "utils.go", "float64(msgBits) / float64(cycleTime) * 1000", "float64(msgBits*1000/cycleTime)"),
    ("zero-default-accepted-on-zero-baud", "utils.go", "\tif defCycleTime == 0 {", "\tif defCycleTime == 0 && bus.baudrate != 0 {"),
    ("zero-size-messages-skipped", "utils.go", "\t\t\tstuffingBits := ", "\t\t\tif tmpMsg.sizeByte == 0 {\n\t\t\t\tcontinue\n\t\t\t}\n\t\t\tstuffingBits := "),
    ("total-misses-default-cycle-messages", "utils.go", "\t\t\ttotConsumedBitsPerSec += msgBitsPerSec", "\t\t\tif tmpMsg.cycleTime != 0 {\n\t\t\t\ttotConsumedBitsPerSec += msgBitsPerSec\n\t\t\t}"),
    ("load-not-percent", "utils.go", "return totConsumedBitsPerSec / float64(bus.baudrate) * 100, msgLoads, nil", "return totConsumedBitsPerSec / float64(bus.baudrate), msgLoads, nil"),
]

def sh(cmd, cwd=None, env=None):
    p = subprocess.run(cmd, cwd=cwd, env=env, shell=True, stdout=subprocess.PIPE, stderr=subprocess.STDOUT)
    return p.returncode, p.stdout.decode("utf-8", "replace")

def main(pid, mutants):
    wt = sys.argv[1]
    only = sys.argv[2:]
    env = dict(os.environ, GOFLAGS="-mod=mod", GOPROXY="off")
    env.pop("GOTOOLCHAIN", None); env.pop("GOSUMDB", None)
    verif = os.path.dirname(os.path.dirname(os.path.dirname(os.path.abspath(__file__))))
    res = []
    for name, file, old, new in mutants:
        if only and name not in only:
            continue
        sh("git checkout -q -- . && git clean -fdq", cwd=wt)
        p = os.path.join(wt, file)
        src = open(p).read()
        if src.count(old) != 1:
            res.append((name, "PATTERN-NOT-UNIQUE(%d)" % src.count(old), "", 0)); continue
        open(p, "w").write(src.replace(old, new))
        rc_t, out_t = sh("go build ./... && go test -count=1 ./... 2>&1 | tail -5", cwd=wt, env=env)
        tests = "tests-pass" if rc_t == 0 and "FAIL" not in out_t else "TESTS-FAIL"
        t0 = time.time()
        rc, out = sh("./check %s --tier quick" % pid, cwd=verif, env=dict(env, VERIF_REPO=wt))
        viol = [l for l in out.splitlines() if l.startswith("VIOLATION") or l.startswith("  (")]
        res.append((name, tests, "CAUGHT" if rc != 0 and viol else "MISSED", time.time() - t0))
        print("%-45s %-11s %-7s %5.1fs  %s" % (name, tests, res[-1][2], res[-1][3], " | ".join(v[:150] for v in viol[:4])), flush=True)
    sh("git checkout -q -- . && git clean -fdq", cwd=wt)
    print("caught %d / %d" % (sum(1 for r in res if r[2] == "CAUGHT"), len(res)))

if __name__ == "__main__":
    main("C17", MUTANTS)
