import os, sys
import vlib
def setup():
    here = os.path.dirname(os.path.abspath(__file__))
    vlib.build_ocaml_driver("c17_driver", os.path.join(vlib.COQ, "extracted"),
                            os.path.join(here, "driver", "c17_driver.ml"), only=["c17_model", "c17_float"])
