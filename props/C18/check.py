"""C18 — read-only use and network export are free of data races; concurrent results equal the
sequential ones.

Proof (coq/Properties/C18.v over coq/C18/Model.v): the model holds exactly the mutable fields the
read paths of /repo can reach and performs the writes the code performs there (the two
error-context hint clears); I11 "hints quiescent" is an invariant of every history, hence no
read-only operation writes, hence every schedule of workers leaves the shared state untouched and
gives each worker its sequential result (ro_no_write, ro_commute, export_network_per_bus,
sched_sequential).  PARTIAL by nature: the quantifier over schedules of the Go memory model is
sampled by the race detector, not proved.

Tie / runtime part (props/C18/harness, public API + one add-only overlay hook for the package
globals), built against the repo under check on every run:
  corr      hint-protocol histories over the model's alphabet on the real objects, hint fields read
            by reflection after every step, replayed on the extracted model (props/C18/driver)
  snap      deep snapshot (all fields, slices with spare capacity) before/after every read-only
            operation (every exported non-mutator method, by reflection, + the package functions)
  race      -race binary: 2/8/32 goroutines of seeded read-only mixes on ONE shared model,
            sequential vs concurrent results, ExportNetwork vs sequential ExportBus, under
            GOMAXPROCS 1/4/16 (three processes); race detector reports parsed
  earlyret  ExportNetwork must not return while a worker runs (own process: the defect crashes it)
"""
import glob
import json
import os
import re
import subprocess
import time

import vlib

PID = "C18"
GOMAXPROCS = [1, 4, 16]


def tier_params(tier):
    if tier == "thorough":
        return {"snap_models": 400, "snap_ops": 300, "corr": 30000, "race_models": 260, "race_ops": 60, "early": 12}
    return {"snap_models": 40, "snap_ops": 150, "corr": 6000, "race_models": 30, "race_ops": 40, "early": 3}


def build_harness(ctx):
    hdir = vlib.go_harness_dir(ctx.prop_dir, ctx.scratch)
    ov = vlib.overlay_json(ctx.scratch, {"verif_c18_hook.go": os.path.join(ctx.prop_dir, "overlay", "verif_c18_hook.go")})
    exe, exer = os.path.join(ctx.scratch, "c18h"), os.path.join(ctx.scratch, "c18hr")
    env = vlib.goenv()
    p1 = subprocess.Popen(["go", "build", "-tags", "verif", "-overlay", ov, "-o", exe, "."], cwd=hdir, env=env,
                          stdout=subprocess.PIPE, stderr=subprocess.STDOUT)
    p2 = subprocess.Popen(["go", "build", "-race", "-tags", "verif", "-overlay", ov, "-o", exer, "."], cwd=hdir, env=env,
                          stdout=subprocess.PIPE, stderr=subprocess.STDOUT)
    o1 = p1.communicate(timeout=1500)[0].decode("utf-8", "replace")
    o2 = p2.communicate(timeout=1500)[0].decode("utf-8", "replace")
    if p1.returncode != 0 or p2.returncode != 0:
        return None, None, o1 + o2
    return exe, exer, ""


def parse_out(path):
    d = {"hist": {}, "fails": {}, "samples": [], "counters": {}}
    if not os.path.exists(path):
        return d
    for line in open(path, encoding="utf-8", errors="replace"):
        line = line.rstrip("\n")
        p = line.split(" ", 2)
        if p[0] == "hist" and len(p) == 3:
            d["hist"][p[1]] = d["hist"].get(p[1], 0) + int(p[2])
        elif p[0] == "FAIL" and len(p) == 3:
            d["fails"][p[1]] = p[2]
        elif p[0] == "SAMPLE":
            d["samples"].append(line[7:][:900])
        elif len(p) == 2 and re.fullmatch(r"-?\d+", p[1]):
            d["counters"][p[0]] = int(p[1])
    return d


def short_fn(fn):
    fn = fn.split("/")[-1]
    return re.sub(r"^acmelib\.", "", fn)


def parse_race_logs(pattern):
    """Return {signature: (count, first_report_text)}; signature = the pair of innermost acmelib
    frames of the two conflicting accesses (function names: line numbers move)."""
    res = {}
    repo = vlib.repo().rstrip("/") + "/"
    for path in sorted(glob.glob(pattern)):
        txt = open(path, encoding="utf-8", errors="replace").read()
        for rep in txt.split("=================="):
            if "WARNING: DATA RACE" not in rep:
                continue
            blocks = [b for b in rep.split("\n\n") if re.search(r"^\s*(Read|Write|Previous|Atomic)", b.strip(), re.M)]
            tops = []
            for b in blocks[:2]:
                kind = re.search(r"(Previous )?(atomic )?(read|write)", b, re.I)
                frames = re.findall(r"\n\s+(\S+)\(\)\n\s+(\S+):(\d+)", b)
                lib = [f for f in frames if f[1].startswith(repo) and "/verif_c18" not in f[1]]
                top = lib[0] if lib else (frames[0] if frames else ("?", "?", "0"))
                tops.append("%s:%s" % ((kind.group(3).lower() if kind else "?"), short_fn(top[0])))
            sig = "race:" + "|".join(sorted(tops))
            cnt, first = res.get(sig, (0, rep.strip()[:3000]))
            res[sig] = (cnt + 1, first)
    return res


def _z(x):
    x = int(x)
    return str(x) if x >= 0 else "(%d)" % x


def _zl(s):
    return "[" + "; ".join(_z(x) for x in s.split(",") if x not in ("", "-")) + "]"


def coq_op(tok):
    p = tok.split(":")
    n = lambda x: "%s%%nat" % int(x)
    k = p[0]
    m = {
        "nn": lambda: "Mut (MNewNode %s %s %s)" % (_z(p[1]), _z(p[2]), n(p[3])),
        "nb": lambda: "Mut (MNewBus %s %s)" % (_z(p[1]), _zl(p[2])),
        "ne": lambda: "Mut MNewEnum",
        "nm": lambda: "Mut (MNewMsg %s %s %s %s %s)" % (_z(p[1]), _z(p[2]), _z(p[3]), _z(p[4]), _zl(p[5])),
        "ms": lambda: "Mut (MMsgSetSender %s %s %s)" % (n(p[1]), n(p[2]), n(p[3])),
        "mc": lambda: "Mut (MMsgSetStatic %s %s)" % (n(p[1]), _z(p[2])),
        "ba": lambda: "Mut (MBusAssignAttr %s %s)" % (n(p[1]), _z(p[2])),
        "at": lambda: "Mut (MNodeAttach %s %s %s)" % (n(p[1]), n(p[2]), n(p[3])),
        "rn": lambda: "Mut (MNodeRename %s %s)" % (n(p[1]), _z(p[2])),
        "aa": lambda: "Mut (MNodeAssignAttr %s %s)" % (n(p[1]), _z(p[2])),
        "ra": lambda: "Mut (MNodeRemoveAttr %s %s)" % (n(p[1]), _z(p[2])),
        "er": lambda: "Mut (MEnumAddRef %s %s %s %s)" % (n(p[1]), _z(p[2]), "None" if p[3] == "-" else "(Some %s)" % _z(p[3]), "true" if p[4] == "1" else "false"),
        "av": lambda: "Mut (MEnumAddValue %s %s %s)" % (n(p[1]), _z(p[2]), _z(p[3])),
        "rv": lambda: "Mut (MEnumRemoveValue %s %s)" % (n(p[1]), _z(p[2])),
        "ri": lambda: "Mut (MEnumReindex %s %s %s)" % (n(p[1]), _z(p[2]), _z(p[3])),
        "Rga": lambda: "Ro (RNodeGetAttr %s %s)" % (n(p[1]), _z(p[2])),
        "Rgv": lambda: "Ro (REnumGetValue %s %s)" % (n(p[1]), _z(p[2])),
        "Rnf": lambda: "Ro (RNodeFields %s)" % n(p[1]),
        "Rna": lambda: "Ro (RNodeAttrs %s)" % n(p[1]),
        "Rns": lambda: "Ro (RNodeString %s)" % n(p[1]),
        "Rev": lambda: "Ro (REnumValues %s)" % n(p[1]),
        "Rez": lambda: "Ro (REnumSize %s)" % n(p[1]),
        "Res": lambda: "Ro (REnumString %s)" % n(p[1]),
        "Rbf": lambda: "Ro (RBusFields %s)" % n(p[1]),
        "Rbn": lambda: "Ro (RBusNodes %s)" % n(p[1]),
        "Rbl": lambda: "Ro (RBusLookup %s %s)" % (n(p[1]), _z(p[2])),
        "Rsm": lambda: "Ro (RSentMsgs %s %s)" % (n(p[1]), n(p[2])),
        "Rms": lambda: "Ro (RMsgSignals %s)" % n(p[1]),
        "Rmc": lambda: "Ro (RMsgCanID %s)" % n(p[1]),
        "Rld": lambda: "Ro (RBusLoad %s)" % n(p[1]),
    }
    return m[k]()


def vm_cross_check(ctx, cases, limit=40):
    """Thorough tier: a sample of the recorded histories is re-evaluated INSIDE Coq (vm_compute on
    Acme.C18.Model.replay, the very definitions the theorems are about; no extraction, no OCaml)
    against what the implementation was observed to do."""
    rows = []
    with open(cases) as f:
        for i, line in enumerate(f):
            if i % 97 != 0:
                continue
            ops, obs = [], []
            for item in line.split():
                tok, o = item.split("=", 1)
                res, nh, eh = o.split("|")
                ops.append(coq_op(tok))
                ehs = "[" + "; ".join("None" if x == "-" else "Some %s" % _z(x) for x in eh.split(",") if x != "") + "]"
                obs.append("(%s, (%s, %s))" % (_zl(res), _zl(nh), ehs))
            rows.append("([%s],\n  [%s])" % ("; ".join(ops), "; ".join(obs)))
            if len(rows) >= limit:
                break
    if not rows:
        return 0, "no cases"
    src = """From Coq Require Import ZArith List Bool.
From Acme.C18 Require Import Model.
Import ListNotations.
Open Scope Z_scope.
Fixpoint leqb {A} (e : A -> A -> bool) (a b : list A) : bool :=
  match a, b with [], [] => true | x :: a', y :: b' => e x y && leqb e a' b' | _, _ => false end.
Definition oeqb (a b : option Z) := match a, b with None, None => true | Some x, Some y => Z.eqb x y | _, _ => false end.
Definition obs_eqb (a b : list Z * (list Z * list (option Z))) :=
  leqb Z.eqb (fst a) (fst b) && leqb Z.eqb (fst (snd a)) (fst (snd b)) && leqb oeqb (snd (snd a)) (snd (snd b)).
Definition cases : list (list op * list (list Z * (list Z * list (option Z)))) := [
%s ].
Definition M := Eval vm_compute in (map (fun c => leqb obs_eqb (replay init (fst c)) (snd c)) cases).
Print M.
""" % ";\n".join(rows)
    path = os.path.join(ctx.scratch, "c18_cases.v")
    open(path, "w").write(src)
    rc, out = vlib.sh(["coqc", "-R", vlib.COQ, "Acme", "-w", "-notation-overridden", path], cwd=ctx.scratch, timeout=900)
    if rc != 0:
        return -1, out[-800:]
    return out.count("false"), "vm_compute cross-check of %d histories: %d disagree" % (len(rows), out.count("false"))


def run_phase(exe, phase, ctx, out, extra_env, timeout):
    env = vlib.goenv()
    env.update({"VERIF_PHASE": phase, "VERIF_OUT": out, "VERIF_SEED": str(ctx.seed), "VERIF_SCRATCH": ctx.scratch})
    env.update({k: str(v) for k, v in extra_env.items()})
    return subprocess.Popen([exe], env=env, stdout=subprocess.PIPE, stderr=subprocess.STDOUT), timeout


def wait(pt):
    p, timeout = pt
    try:
        out = p.communicate(timeout=timeout)[0].decode("utf-8", "replace")
        return p.returncode, out
    except subprocess.TimeoutExpired:
        p.kill()
        out = p.communicate()[0].decode("utf-8", "replace")
        return 124, out + "\n[timeout]"


def run(ctx):
    ctx.level = "proof"
    t0 = time.time()
    status = vlib.proof_status(PID, extra_targets=["C18/Extract.v"])
    ctx.proof_gate(status)
    drv = vlib.build_ocaml_driver("c18_driver", os.path.join(vlib.COQ, "extracted"),
                                  os.path.join(ctx.prop_dir, "driver", "c18_driver.ml"), only=["c18_model"])
    t_proof = time.time() - t0
    par = tier_params(ctx.tier)
    only = None
    if ctx.replay:
        r = (json.load(open(ctx.replay)).get("replay") or {})
        if "model" in r:
            only = int(r["model"])
            par["race_ops"] = par["race_ops"] * 3
    t1 = time.time()
    exe, exer, blog = build_harness(ctx)
    t_build = time.time() - t1
    if not exe:
        ctx.violation("harness-build-failed", "the C18 harness no longer builds against the repo under check: " + blog[-800:],
                      {"log": blog[-4000:]}, found_input=False)
        ctx.coverage.update({"evaluations": 0})
        return

    # ---- all phases start together (16 cores): corr, snap, 3 x race, 3 x earlyret ---------------
    t2 = time.time()
    cases = os.path.join(ctx.scratch, "corr_cases.txt")
    procs = {}
    lim = 2400 if ctx.tier == "thorough" else 600
    procs["corr"] = run_phase(exe, "corr", ctx, os.path.join(ctx.scratch, "corr.out"), {"VERIF_MODELS": par["corr"], "VERIF_CASES": cases}, lim)
    ex = {"VERIF_MODELS": par["snap_models"], "VERIF_OPS": par["snap_ops"]}
    if only is not None:
        ex["VERIF_ONLY"] = only
    procs["snap"] = run_phase(exe, "snap", ctx, os.path.join(ctx.scratch, "snap.out"), ex, lim)
    for g in GOMAXPROCS:
        ex = {"VERIF_MODELS": par["race_models"], "VERIF_OPS": par["race_ops"], "GOMAXPROCS": g,
              "GORACE": "log_path=%s halt_on_error=0 history_size=3" % os.path.join(ctx.scratch, "racelog-%d" % g)}
        if only is not None:
            ex["VERIF_ONLY"] = only
        procs["race%d" % g] = run_phase(exer, "race", ctx, os.path.join(ctx.scratch, "race-%d.out" % g), ex, lim)
        ex2 = {"VERIF_MODELS": par["early"], "GOMAXPROCS": g,
               "GORACE": "log_path=%s halt_on_error=0" % os.path.join(ctx.scratch, "earlylog-%d" % g)}
        procs["early%d" % g] = run_phase(exer, "earlyret", ctx, os.path.join(ctx.scratch, "early-%d.out" % g), ex2, 300)
    results = {k: wait(v) for k, v in procs.items()}
    t_run = time.time() - t2

    outs = {k: parse_out(os.path.join(ctx.scratch, f)) for k, f in
            [("corr", "corr.out"), ("snap", "snap.out")] +
            [("race%d" % g, "race-%d.out" % g) for g in GOMAXPROCS] + [("early%d" % g, "early-%d.out" % g) for g in GOMAXPROCS]}

    # ---- early return: a crash of that child is the defect itself -------------------------------
    for g in GOMAXPROCS:
        rc, log = results["early%d" % g]
        if rc != 0 and "panic:" in log and "exportBusAsync" in log:
            m = re.search(r"panic: [^\n]*", log)
            msg = re.sub(r"/\S+/(early_\d+/)", r".../\1", m.group(0)) if m else "panic"
            ctx.violation("exportnetwork-early-return:worker-panics-on-closed-file",
                          "ExportNetwork returns on a failed file creation without joining the workers it already started; its deferred "
                          "Close pulls the file from under the running worker, whose DBC writer panics and kills the process (%s). "
                          "Input: network with buses 'a_big' (120 messages) and 'zz/unwritable/name'." % msg,
                          {"phase": "earlyret", "gomaxprocs": g, "log": log[-2500:], "how": "./check C18 --replay <this file>"})
        elif rc != 0:
            ctx.violation("earlyret-run-failed", "early-return scenario failed to run (rc=%d): %s" % (rc, log[-600:]), {"log": log[-3000:]},
                          found_input="panic:" in log)
    # ---- harness failures / crashes of the other phases ------------------------------------------
    for k in ["corr", "snap"] + ["race%d" % g for g in GOMAXPROCS]:
        rc, log = results[k]
        # the race runtime exits with 66 when it reported races: those are handled below
        if rc not in (0, 66):
            m = re.search(r"(panic|fatal error): [^\n]*", log)
            msg = re.sub(r"\S+\.dbc", "<file>.dbc", re.sub(r"/\S*/", "", re.sub(r"0x[0-9a-f]+", "0x?", m.group(0))))[:80] if m else ""
            ctx.violation("%s-run-failed%s" % (k.rstrip("0123456789"), (":" + msg) if m else ""),
                          "phase %s of the harness died (rc=%d): %s" % (k, rc, log[-700:]), {"phase": k, "log": log[-3000:]}, found_input=bool(m))

    # ---- correspondence with the extracted model ---------------------------------------------------
    mism, modelprop, mlog = -1, -1, ""
    if os.path.exists(cases):
        rc2, mlog = vlib.sh([drv, cases], timeout=1200)
        m = re.search(r"HISTORIES (\d+) STEPS (\d+) MISMATCHES (\d+) MODELPROP (\d+)", mlog)
        if m:
            mism, modelprop = int(m.group(3)), int(m.group(4))
    # ---- property-level failures reported by the harness -------------------------------------------
    found_any = False
    for k, d in outs.items():
        for sig, detail in sorted(d["fails"].items()):
            found_any = True
            ctx.violation(sig, "C18 (%s): %s" % (k, detail), {"phase": k, "detail": detail,
                          "model": int(re.search(r"model=(\d+)", detail).group(1)) if re.search(r"model=(\d+)", detail) else None,
                          "how": "./check C18 --replay <this file>"})
    # ---- race detector -------------------------------------------------------------------------------
    races = parse_race_logs(os.path.join(ctx.scratch, "racelog-*")) if True else {}
    eraces = parse_race_logs(os.path.join(ctx.scratch, "earlylog-*"))
    for sig, (cnt, first) in sorted(races.items()):
        found_any = True
        ctx.violation(sig, "the race detector reported %d unsynchronised conflicting access(es) between goroutines running read-only "
                      "operations on one shared model: %s" % (cnt, sig), {"phase": "race", "first_report": first})
    for sig, (cnt, first) in sorted(eraces.items()):
        found_any = True
        ctx.violation("exportnetwork-early-return:" + sig, "a worker left running by ExportNetwork (early return on a failed file creation) races with "
                      "the caller's edits made after the return (%d reports): %s" % (cnt, sig), {"phase": "earlyret", "first_report": first})
    if (mism != 0 or modelprop != 0) and not found_any:
        first = re.search(r"(MISMATCH|MODELPROP).*(\n.*\n.*)?", mlog)
        ctx.violation("c18-correspondence", "model and implementation disagree on the hint protocol / read-only projections (%s histories); the "
                      "theorems of Properties/C18.v no longer speak about this code: %s" % (mism, first.group(0) if first else mlog[-500:]),
                      {"correspondence": "props/C18 corr phase", "driver_output": mlog[:3000]}, found_input=False)
    if ctx.replay:
        print(mlog[-1500:])
        for k, (rc, log) in results.items():
            print("== %s rc=%d\n%s" % (k, rc, log[-1500:]))

    # ---- evidence --------------------------------------------------------------------------------------
    cnt = {}
    hist = {}
    for k, d in outs.items():
        for n, v in d["counters"].items():
            if n == "gomaxprocs":
                continue
            cnt[n] = cnt.get(n, 0) + v
        for n, v in d["hist"].items():
            hist[n] = hist.get(n, 0) + v
    classes = sorted(n for n in hist if n.startswith("recvmethod:"))
    dist = {n: v for n, v in hist.items() if not n.startswith("recvmethod:")}
    top = dict(sorted(dist.items(), key=lambda kv: -kv[1])[:60])
    samples = []
    for k in ["snap", "corr", "race4"]:
        samples += outs[k]["samples"][:5]
    evaluations = cnt.get("snap_ops", 0) + cnt.get("race_ops", 0) + cnt.get("corr_steps", 0)
    ctx.coverage.update({
        "evaluations": evaluations,
        "distinct_nontrivial": cnt.get("race_rounds_nontrivial", 0) + cnt.get("corr_histories_nontrivial", 0),
        "rule": "evaluations = read-only operations executed (snapshot phase: one deep snapshot comparison each; concurrent phase: each run "
                "once sequentially and once concurrently and compared; corr phase: steps of hint-protocol histories compared with the extracted "
                "Coq model). Models are built by seeded random construction histories (buses sharing nodes, signal types, units, enums, "
                "attributes, CAN-ID builders; failing renames / enum values that drive the hint protocol). Operations = every exported method "
                "whose name is not a mutator verb, found by reflection, with generated arguments, + ExportBus / ExportToMarkdown / SaveNetwork / "
                "CalculateBusLoad; ExportNetwork has its own round per model. non-trivial = (a) a concurrent round (model x thread count x "
                "GOMAXPROCS, all distinct) on a model whose buses share a node and a signal type and in which at least one export/save/bus-load "
                "ran concurrently with getters, plus (b) a corr history in which a hint was set-and-cleared AND a read-only error path ran",
        "samples": samples,
        "distribution": top,
        "distinct_receiver_methods": len(classes),
        "counters": cnt,
        "race_reports": {k: v[0] for k, v in races.items()},
        "early_return_race_reports": {k: v[0] for k, v in eraces.items()},
        "model_mismatches": mism,
        "model_property_failures": modelprop,
        "gomaxprocs": GOMAXPROCS,
        "thread_counts": [2, 8, 32],
        "exhaustive": False,
        "wall_breakdown_s": {"proof_gate+driver": round(t_proof, 1), "go_build(race+plain)": round(t_build, 1), "phases": round(t_run, 1)},
        "partial": "PARTIAL claim: the theorems are a sufficient condition on the model (read paths do not write => any schedule equals the "
                   "sequential run); the quantifier over schedules of the Go memory model is sampled by the race detector only",
        "trusted_base": [
            "Coq 8.16.1 kernel (coqc; coqchk in the thorough tier); vm_compute only in the non-vacuity examples",
            "axioms: none (Print Assumptions: Closed under the global context)" if not status["axioms"] else "axioms: " + ", ".join(status["axioms"]),
            "extraction (ExtrOcamlBasic only) + OCaml 4.13.1 + props/C18/driver/c18_driver.ml",
            "model coq/C18/Model.v is a hand-written restatement of the write footprint of the read paths (node.go errorf, signal_enum.go errorf, "
            "copy-then-sort getters, slice-returning getters); tied by the corr phase (hint fields after every step) and the deep snapshot",
            "Go harness props/C18/harness (generators, reflection snapshot incl. unexported fields and spare capacity, result canonicalisation: "
            "String() lines and References/SignalNames compared as multisets, bus loads sorted, DBC value-table runs sorted) + overlay hook "
            "props/C18/overlay/verif_c18_hook.go (package globals)",
            "Go race detector (ThreadSanitizer runtime, race_linux_amd64.syso): reports only races that occur in the sampled executions",
        ],
    })
    ctx.assumptions = [
        "data-race freedom over all schedules is NOT proved: it is sampled (race detector, 2/8/32 goroutines, GOMAXPROCS 1/4/16)",
        "the model covers the mutable fields found by the audit of the read paths (hint fields); the deep snapshot is what checks that no other field is written",
        "panics / errors of read-only operations that occur identically in the sequential run belong to other properties (C16/D32, C04/D19) and are only counted",
    ]
    if ctx.tier == "thorough":
        nbad, msg = vm_cross_check(ctx, cases) if os.path.exists(cases) else (-1, "no cases file")
        ctx.coverage["vm_compute_cross_check"] = msg
        if nbad != 0 and not found_any:
            ctx.violation("c18-correspondence-vm", "histories re-evaluated inside Coq (vm_compute) disagree with the implementation: " + msg,
                          {"correspondence": "vm_compute cross-check"}, found_input=False)
        ok, chk = vlib.coqchk(PID)
        ctx.coverage["coqchk"] = "ok" if ok else "FAILED"
        ctx.coverage["coqchk_tail"] = chk[-1500:]
        if not ok:
            ctx.proof_problems = (getattr(ctx, "proof_problems", []) or []) + ["coqchk failed: " + chk[-500:]]
