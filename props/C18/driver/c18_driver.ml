(* Correspondence driver for C18: reads the histories written by the Go harness
   (tok=res|nodehints|enumhints ...), replays each on the extracted Coq model
   (Acme.C18.Model: mstep / ro / hints) and prints one MISMATCH line per disagreeing step.
   Also checks, per history, the model-level property directly on the replayed states: every
   read-only step leaves the state unchanged and the hints are unset after every step. *)
module BZ = Z
open C18_model

let rec pos_of_z (n : BZ.t) : positive =
  if BZ.equal n BZ.one then XH
  else if BZ.testbit n 0 then XI (pos_of_z (BZ.shift_right n 1))
  else XO (pos_of_z (BZ.shift_right n 1))

let coqz_of_z (n : BZ.t) : z =
  if BZ.sign n = 0 then Z0 else if BZ.sign n > 0 then Zpos (pos_of_z n) else Zneg (pos_of_z (BZ.neg n))

let rec z_of_pos = function
  | XH -> BZ.one
  | XO p -> BZ.shift_left (z_of_pos p) 1
  | XI p -> BZ.succ (BZ.shift_left (z_of_pos p) 1)

let z_of_coqz = function Z0 -> BZ.zero | Zpos p -> z_of_pos p | Zneg p -> BZ.neg (z_of_pos p)
let cz s = coqz_of_z (BZ.of_string s)
let zs z = BZ.to_string (z_of_coqz z)
let rec nat_of_int n = if n <= 0 then O else S (nat_of_int (n - 1))
let cn s = nat_of_int (int_of_string s)

let zlist s = if s = "-" || s = "" then [] else List.map cz (String.split_on_char ',' s)

let parse_op tok : op =
  match String.split_on_char ':' tok with
  | ["nn"; name; id; nifs] -> Mut (MNewNode (cz name, cz id, cn nifs))
  | ["nb"; baud; b] -> Mut (MNewBus (cz baud, zlist b))
  | ["ne"] -> Mut MNewEnum
  | ["nm"; id; prio; bytes; cyc; sigs] -> Mut (MNewMsg (cz id, cz prio, cz bytes, cz cyc, zlist sigs))
  | ["ms"; m; n; i] -> Mut (MMsgSetSender (cn m, cn n, cn i))
  | ["mc"; m; c] -> Mut (MMsgSetStatic (cn m, cz c))
  | ["ba"; b; a] -> Mut (MBusAssignAttr (cn b, cz a))
  | ["at"; n; i; b] -> Mut (MNodeAttach (cn n, cn i, cn b))
  | ["rn"; n; nm] -> Mut (MNodeRename (cn n, cz nm))
  | ["aa"; n; a] -> Mut (MNodeAssignAttr (cn n, cz a))
  | ["ra"; n; a] -> Mut (MNodeRemoveAttr (cn n, cz a))
  | ["er"; e; sg; cap; inmsg] -> Mut (MEnumAddRef (cn e, cz sg, (if cap = "-" then None else Some (cz cap)), inmsg = "1"))
  | ["av"; e; v; idx; pf] -> Mut (MEnumAddValue (cn e, cz v, cz idx, (if pf = "-" then None else Some (cz pf))))
  | ["rv"; e; v] -> Mut (MEnumRemoveValue (cn e, cz v))
  | ["ri"; e; v; idx; pf] -> Mut (MEnumReindex (cn e, cz v, cz idx, (if pf = "-" then None else Some (cz pf))))
  | ["nt"; f] -> Mut (MNewType (zlist f))
  | ["nu"; sym] -> Mut (MNewUnit (cz sym))
  | ["nd"; f] -> Mut (MNewAttrDef (zlist f))
  | ["ns"; t; u] -> Mut (MNewSig (cz t, cz u))
  | ["nx"; gs] -> Mut (MNewMux (List.map zlist (String.split_on_char '/' gs)))
  | ["sa"; sg; a] -> Mut (MSigAssignAttr (cn sg, cz a))
  | ["ma"; m; a] -> Mut (MMsgAssignAttr (cn m, cz a))
  | ["mr"; m; n; i] -> Mut (MMsgAddRecv (cn m, cn n, cn i))
  | ["Rga"; n; a] -> Ro (RNodeGetAttr (cn n, cz a))
  | ["Rgv"; e; v] -> Ro (REnumGetValue (cn e, cz v))
  | ["Rnf"; n] -> Ro (RNodeFields (cn n))
  | ["Rna"; n] -> Ro (RNodeAttrs (cn n))
  | ["Rns"; n] -> Ro (RNodeString (cn n))
  | ["Rev"; e] -> Ro (REnumValues (cn e))
  | ["Rez"; e] -> Ro (REnumSize (cn e))
  | ["Res"; e] -> Ro (REnumString (cn e))
  | ["Rbf"; b] -> Ro (RBusFields (cn b))
  | ["Rbn"; b] -> Ro (RBusNodes (cn b))
  | ["Rbl"; b; nm] -> Ro (RBusLookup (cn b, cz nm))
  | ["Rsm"; n; i] -> Ro (RSentMsgs (cn n, cn i))
  | ["Rms"; m] -> Ro (RMsgSignals (cn m))
  | ["Rmc"; m] -> Ro (RMsgCanID (cn m))
  | ["Rld"; b] -> Ro (RBusLoad (cn b))
  | ["Rba"; b] -> Ro (RBusAttrs (cn b))
  | ["Rmr"; m] -> Ro (RMsgRecv (cn m))
  | ["Rma"; m] -> Ro (RMsgAttrs (cn m))
  | ["Rsf"; sg] -> Ro (RSigFields (cn sg))
  | ["Rsa"; sg] -> Ro (RSigAttrs (cn sg))
  | ["Rtf"; t] -> Ro (RTypeFields (cn t))
  | ["Ruf"; u] -> Ro (RUnitFields (cn u))
  | ["Rad"; a] -> Ro (RAttrDef (cn a))
  | ["Rsg"; sg] -> Ro (RSigGroups (cn sg))
  | ["Rmf"; m] -> Ro (RMsgFields (cn m))
  | ["Rnb"] -> Ro RNetBuses
  | _ -> failwith ("bad op " ^ tok)

let render res st =
  let (nh, eh) = hints st in
  String.concat "," (List.map zs res) ^ "|" ^ String.concat "," (List.map zs nh) ^ "|" ^
  String.concat "," (List.map (function None -> "-" | Some z -> zs z) eh)

let quiet st =
  let (nh, eh) = hints st in
  List.for_all (fun h -> zs h = "-1") nh && List.for_all (fun h -> h = None) eh

let () =
  let ic = open_in Sys.argv.(1) in
  let hists = ref 0 and steps = ref 0 and bad = ref 0 and modelprop = ref 0 in
  let end_seen = ref None in
  (try while true do
      let line = input_line ic in
      if String.length line >= 4 && String.sub line 0 4 = "END " then begin
        (match String.split_on_char ' ' line with
         | [_; h; st] -> end_seen := Some (int_of_string h, int_of_string st)
         | _ -> end_seen := Some (-1, -1));
        raise End_of_file
      end;
      incr hists;
      let st = ref init in
      let flagged = ref false in
      List.iteri (fun i item ->
          if item <> "" then begin
            let eq = String.index item '=' in
            let tok = String.sub item 0 eq and obs = String.sub item (eq + 1) (String.length item - eq - 1) in
            let o = parse_op tok in
            let (st', res) = step !st o in
            incr steps;
            (match o with
             | Ro _ -> if st' <> !st then begin incr modelprop; Printf.printf "MODELPROP history %d step %d %s: read-only step changed the model state\n" !hists i tok end
             | Mut _ -> ());
            if not (quiet st') then begin incr modelprop; Printf.printf "MODELPROP history %d step %d %s: hint left set in the model\n" !hists i tok end;
            let mine = render res st' in
            if mine <> obs && not !flagged then begin
              flagged := true; incr bad;
              if !bad <= 15 then Printf.printf "MISMATCH history %d step %d op %s\n  impl =%s\n  model=%s\n" !hists i tok obs mine
            end;
            st := st'
          end) (String.split_on_char ' ' line)
    done with End_of_file -> ());
  (* the case file must end with the harness's END marker and the counts must agree: a truncated
     or empty file is not a clean comparison *)
  let end_status = match !end_seen with
    | None -> "missing"
    | Some (h, st) -> if h = !hists && st = !steps then "ok" else Printf.sprintf "bad(%d,%d)" h st in
  Printf.printf "HISTORIES %d STEPS %d MISMATCHES %d MODELPROP %d END %s\n" !hists !steps !bad !modelprop end_status
