module verif/c18globals

go 1.23
