// Lists the package-level variables of one Go package directory (non-test files), one name per
// line, using go/parser (stdlib only).  props/C18/check.py turns the list into the add-only
// overlay hook VerifC18Globals so that the deep snapshot covers EVERY package-level variable of
// the tree under check, including ones a later change introduces (lazily filled tables, caches).
package main

import (
	"fmt"
	"go/ast"
	"go/parser"
	"go/token"
	"os"
	"path/filepath"
	"sort"
	"strings"
)

func main() {
	dir := os.Args[1]
	files, _ := filepath.Glob(filepath.Join(dir, "*.go"))
	sort.Strings(files)
	fset := token.NewFileSet()
	for _, f := range files {
		if strings.HasSuffix(f, "_test.go") || strings.HasPrefix(filepath.Base(f), "verif_") {
			continue
		}
		af, err := parser.ParseFile(fset, f, nil, parser.ParseComments)
		if err != nil {
			fmt.Fprintln(os.Stderr, err)
			os.Exit(1)
		}
		// skip files excluded by a build constraint (none in the pinned tree)
		skip := false
		for _, cg := range af.Comments {
			if cg.Pos() < af.Package {
				for _, c := range cg.List {
					if strings.HasPrefix(c.Text, "//go:build") {
						skip = true
					}
				}
			}
		}
		if skip {
			continue
		}
		for _, d := range af.Decls {
			gd, ok := d.(*ast.GenDecl)
			if !ok || gd.Tok != token.VAR {
				continue
			}
			for _, sp := range gd.Specs {
				for _, n := range sp.(*ast.ValueSpec).Names {
					if n.Name != "_" {
						fmt.Println(n.Name)
					}
				}
			}
		}
	}
}
