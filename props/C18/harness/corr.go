package main

import (
	"bufio"
	"errors"
	"fmt"
	"os"
	"reflect"
	"sort"
	"strconv"
	"strings"

	acmelib "github.com/squadracorsepolito/acmelib"
)

// Hint-protocol correspondence: random histories over exactly the alphabet of coq/C18/Model.v
// (mut_op + ro_op) are executed on the real objects; after every step the harness records the
// result projection and the raw hint fields (Node.intErrNum, SignalEnum.parErrID, read by
// reflection).  props/C18/driver replays the same history on the extracted model and compares.
// Line format:  tok=res|nodehints|enumhints  tok=...   (one history per line)

type cworld struct {
	nodes   []*acmelib.Node
	buses   []*acmelib.Bus
	enums   []*acmelib.SignalEnum
	msgs    []*acmelib.Message
	hasSend []bool
	attrs   []acmelib.Attribute
	ifBus   [][]int // per node, per iface: bus handle or -1
	// enum side
	vals    []map[int]*acmelib.SignalEnumValue // per enum: value handle -> object in the enum
	valIdx  []map[int]int                      // per enum: value handle -> index
	refs    [][]int                            // per enum: signal handles
	caps    []map[int]int                      // per enum: sg -> cap (-1 none)
	refKind []int                              // per enum: 0 no capped reference yet, 1 in messages, 2 in multiplexer groups
	sigID   map[acmelib.EntityID]int
	valH    map[acmelib.EntityID]int
	attrH   map[acmelib.EntityID]int
	nodeH   map[acmelib.EntityID]int
	msgH    map[acmelib.EntityID]int
	sigObjs []any
	sigTab  []acmelib.Signal // signal table: handle = position (as in the model)
	sigFree []int            // standard signals not yet in a message
	types   []*acmelib.SignalType
	units   []*acmelib.SignalUnit
	typeH   map[acmelib.EntityID]int
	unitH   map[acmelib.EntityID]int
	enumH   map[acmelib.EntityID]int
	noSend  []bool         // per message: holds an enum signal (kept without sender: its error route stays [signal, message])
	recvOf  []map[int]bool // per message: nodes that receive it
	nextSig int
	nextVal int
	nextMsg int
	hidden  []any
}

func (c *cworld) roots() []any {
	var rs []any
	for _, x := range c.nodes {
		rs = append(rs, x)
	}
	for _, x := range c.buses {
		rs = append(rs, x)
	}
	for _, x := range c.enums {
		rs = append(rs, x)
	}
	for _, x := range c.msgs {
		rs = append(rs, x)
	}
	for _, x := range c.attrs {
		rs = append(rs, x)
	}
	for _, x := range c.types {
		rs = append(rs, x)
	}
	for _, x := range c.units {
		rs = append(rs, x)
	}
	rs = append(rs, c.sigObjs...)
	rs = append(rs, c.hidden...)
	return rs
}

func ints(xs []int) string {
	if len(xs) == 0 {
		return ""
	}
	ss := make([]string, len(xs))
	for i, x := range xs {
		ss[i] = strconv.Itoa(x)
	}
	return strings.Join(ss, ",")
}

// entity kinds of the EntityError chain, innermost first
func chainKinds(err error) []int {
	var ks []int
	e := err
	for e != nil {
		var ee *acmelib.EntityError
		if !errors.As(e, &ee) {
			break
		}
		ks = append(ks, int(ee.Kind))
		e = ee.Err
	}
	for i, j := 0, len(ks)-1; i < j; i, j = i+1, j-1 {
		ks[i], ks[j] = ks[j], ks[i]
	}
	return ks
}

func (c *cworld) hints() string {
	var nh []int
	for _, n := range c.nodes {
		nh = append(nh, int(reflect.ValueOf(n).Elem().FieldByName("intErrNum").Int()))
	}
	var eh []string
	for _, e := range c.enums {
		s := reflect.ValueOf(e).Elem().FieldByName("parErrID").String()
		if s == "" {
			eh = append(eh, "-")
		} else if h, ok := c.sigID[acmelib.EntityID(s)]; ok {
			eh = append(eh, strconv.Itoa(h))
		} else {
			eh = append(eh, "?"+s)
		}
	}
	return ints(nh) + "|" + strings.Join(eh, ",")
}

func nodeErr(err error) []int { return append([]int{-1}, chainKinds(err)...) }

// enum-side error projection: [-1, 7] ++ route, where the route is the real chain when the hint
// was used (cause ErrNoSpaceLeft), and K_ANYREF (100) when an arbitrary referencing signal was
// picked (map order), nothing when the enum has no references.
func (c *cworld) enumErr(e int, err error) []int {
	ks := chainKinds(err)
	var f []int
	for _, k := range ks {
		if k != int(acmelib.EntityKindSignalEnumValue) {
			f = append(f, k)
		}
	}
	if errors.Is(err, acmelib.ErrNoSpaceLeft) {
		return append([]int{-1}, f...)
	}
	if len(c.refs[e]) > 0 {
		return []int{-1, int(acmelib.EntityKindSignalEnum), 100}
	}
	return []int{-1, int(acmelib.EntityKindSignalEnum)}
}

func builderFlat(b *acmelib.CANIDBuilder) []int {
	var xs []int
	for _, op := range b.Operations() {
		xs = append(xs, int(op.Kind()), op.From(), op.Len())
	}
	return xs
}

func dash(s string) string {
	if s == "" {
		return "-"
	}
	return s
}

// sigFromChain returns the handle of the signal named in the EntityError chain (-1: none).
func (c *cworld) sigFromChain(err error) int {
	e := err
	for e != nil {
		var ee *acmelib.EntityError
		if !errors.As(e, &ee) {
			break
		}
		if ee.Kind == acmelib.EntityKindSignal {
			if h, ok := c.sigID[ee.EntityID]; ok {
				return h
			}
		}
		e = ee.Err
	}
	return -1
}

// hintSiteHistory drives the THIRD set-site of SignalEnum.parErrID, SignalEnum.modifySize
// (signal_enum.go), which only fails after verifyValueIndex has accepted the index: two enum
// signals of one enum in one layout (pad[5] es1 es2 in a 1-byte message; each alone may grow by one
// bit, both together may not - D36).  AddValue then returns through se.errorf (hint consumed);
// SignalEnumValue.UpdateIndex reaches modifyValueIndex, which panics.  Either way the hint must be
// unset afterwards, and the failing lookup that follows must not write.  The history is also
// replayed on the model (oracle argument push_fail = the signal the code named).
func hintSiteHistory(rep *report, reindex bool, hidx int) string {
	c := &cworld{sigID: map[acmelib.EntityID]int{}, valH: map[acmelib.EntityID]int{}, attrH: map[acmelib.EntityID]int{},
		nodeH: map[acmelib.EntityID]int{}, msgH: map[acmelib.EntityID]int{}, typeH: map[acmelib.EntityID]int{},
		unitH: map[acmelib.EntityID]int{}, enumH: map[acmelib.EntityID]int{}}
	var toks []string
	emit := func(tok string, res []int) { toks = append(toks, tok+"="+ints(res)+"|"+c.hints()) }
	site := "AddValue"
	if reindex {
		site = "UpdateIndex/modifyValueIndex"
	}
	e := acmelib.NewSignalEnum("e0")
	c.enums = append(c.enums, e)
	c.refs = append(c.refs, []int{1, 2})
	emit("ne", []int{0})
	v1 := acmelib.NewSignalEnumValue("v1", 1)
	if e.AddValue(v1) != nil {
		return ""
	}
	emit("av:0:1:1:-", []int{0})
	t5, _ := acmelib.NewIntegerSignalType("t5", 5, false)
	c.types = append(c.types, t5)
	emit("nt:"+ints(typeFields(t5)), []int{0})
	pad, _ := acmelib.NewStandardSignal("s0", t5)
	emit("ns:0:-1", []int{0})
	es1, _ := acmelib.NewEnumSignal("es1", e)
	es2, _ := acmelib.NewEnumSignal("es2", e)
	m := acmelib.NewMessage("m1", 1, 1)
	if m.AppendSignal(pad) != nil || m.AppendSignal(es1) != nil || m.AppendSignal(es2) != nil {
		return ""
	}
	c.sigID[pad.EntityID()], c.sigID[es1.EntityID()], c.sigID[es2.EntityID()] = 0, 1, 2
	c.sigObjs = append(c.sigObjs, pad, es1, es2)
	c.msgs = append(c.msgs, m)
	emit("er:0:1:3:1", []int{0})
	emit("er:0:2:2:1", []int{0})
	emit("nm:1:0:1:0:0,1,2", []int{0})
	var res []int
	pf := -1
	if !reindex {
		err := e.AddValue(acmelib.NewSignalEnumValue("v2", 2))
		if err == nil {
			return "" // the layouts accepted it (D36 repaired): nothing to observe at this site
		}
		res = c.enumErr(0, err)
		pf = c.sigFromChain(err)
	} else {
		var pv any
		var err error
		func() {
			defer func() { pv = recover() }()
			err = v1.UpdateIndex(2)
		}()
		if pv == nil {
			if err == nil {
				return ""
			}
			res = c.enumErr(0, err)
			pf = c.sigFromChain(err)
		} else {
			res = []int{999}
			if perr, ok := pv.(error); ok {
				for _, k := range chainKinds(perr) {
					if k != int(acmelib.EntityKindSignalEnumValue) {
						res = append(res, k)
					}
				}
				pf = c.sigFromChain(perr)
			}
		}
	}
	raw := reflect.ValueOf(e).Elem().FieldByName("parErrID").String()
	if pf < 0 {
		if h, ok := c.sigID[acmelib.EntityID(raw)]; ok {
			pf = h
		}
	}
	pfs := "-"
	if pf >= 0 {
		pfs = strconv.Itoa(pf)
	}
	if reindex {
		emit("ri:0:1:2:"+pfs, res)
	} else {
		emit("av:0:2:2:"+pfs, res)
	}
	rep.counters["corr_modifysize_hint_site_runs"]++
	if raw != "" {
		rep.fail("hint-left-set:SignalEnum.parErrID",
			fmt.Sprintf("I11 broken on the implementation: after SignalEnumValue/SignalEnum %s failed in SignalEnum.modifySize (two enum signals of one enum in one 1-byte message, new index 2) the enum keeps parErrID=%q; the next failing read-only lookup clears it = a write on a read path", site, raw))
	}
	roots := c.roots()
	before := snapshotLines(roots)
	_, gerr := e.GetValue("no-such-value")
	after := snapshotLines(roots)
	if d := diffLines(before, after); d != "" {
		rep.fail("snapshot-write:"+changedField(before, after),
			fmt.Sprintf("hint-site history %d (%s): read-only SignalEnum.GetValue (miss) wrote shared state: %s", hidx, site, d))
	}
	emit("Rgv:0:999999", c.enumErr(0, gerr))
	return strings.Join(toks, " ")
}

func corrPhase(rep *report, seed uint64, histories int, casesPath string) {
	f, err := os.Create(casesPath)
	if err != nil {
		panic(err)
	}
	bw := bufio.NewWriter(f)
	written, steps := 0, 0
	defer func() {
		// END marker: number of histories and of steps written; the driver refuses a file without it
		fmt.Fprintf(bw, "END %d %d\n", written, steps)
		must(bw.Flush(), "cases flush")
		must(f.Close(), "cases close")
		rep.counters["corr_histories_written"] = written
		rep.counters["corr_steps_written"] = steps
	}()
	put := func(line string) {
		_, err := bw.WriteString(line + "\n")
		must(err, "cases write")
		written++
		steps += len(strings.Fields(line))
	}
	for k := 0; k < 12; k++ {
		if line := hintSiteHistory(rep, k%2 == 1, k); line != "" {
			put(line)
			rep.counters["corr_histories"]++
			if k < 2 {
				rep.samples = append(rep.samples, "corr hint-site history: "+line)
			}
		}
	}
	for h := 0; h < histories; h++ {
		r := newRng(seed ^ (uint64(h+1) * 0xA24BAED4963EE407))
		line, stats, diffAt := corrHistory(rep, r, h, 0)
		if diffAt > 0 {
			corrHistory(rep, newRng(seed^(uint64(h+1)*0xA24BAED4963EE407)), h, diffAt)
		}
		put(line)
		rep.counters["corr_histories"]++
		rep.counters["corr_steps"] += stats[0]
		rep.counters["corr_hint_set_and_cleared"] += stats[1]
		rep.counters["corr_readonly_error_paths"] += stats[2]
		if stats[1] > 0 && stats[2] > 0 {
			rep.counters["corr_histories_nontrivial"]++
		}
		if h < 2 {
			s := line
			if len(s) > 600 {
				s = s[:600] + "..."
			}
			rep.samples = append(rep.samples, "corr history: "+s)
		}
	}
}

// probe > 0: the probe-th read-only operation of the history is snapshotted in lines mode (second
// pass, to name the written field).  Returns the index of the first read-only operation whose
// snapshot hash changed (0 = none).
func corrHistory(rep *report, r *rng, hidx int, probe int) (string, [3]int, int) {
	roCount, firstDiffRO := 0, 0
	c := &cworld{sigID: map[acmelib.EntityID]int{}, valH: map[acmelib.EntityID]int{}, attrH: map[acmelib.EntityID]int{},
		nodeH: map[acmelib.EntityID]int{}, msgH: map[acmelib.EntityID]int{}, typeH: map[acmelib.EntityID]int{},
		unitH: map[acmelib.EntityID]int{}, enumH: map[acmelib.EntityID]int{}, nextSig: 0, nextVal: 1, nextMsg: 1}
	for a := 0; a < 4; a++ {
		att := acmelib.NewStringAttribute(fmt.Sprintf("att%03d", a), fmt.Sprintf("d%d", 7+a))
		c.attrs = append(c.attrs, att)
		c.attrH[att.EntityID()] = a
	}
	var toks []string
	var stats [3]int
	emit := func(tok string, res []int) {
		toks = append(toks, tok+"="+ints(res)+"|"+c.hints())
		stats[0]++
	}
	snapRO := func(tok string, f func() []int) {
		roots := c.roots()
		roCount++
		var res []int
		if roCount == probe {
			// second pass over the same history: name the field this operation writes
			before := snapshotLines(roots)
			res = f()
			after := snapshotLines(roots)
			if d := diffLines(before, after); d != "" {
				rep.fail("snapshot-write:"+changedField(before, after), fmt.Sprintf("history %d: read-only op %s wrote shared state: %s", hidx, tok, d))
			} else {
				rep.fail("snapshot-write:unreproduced", fmt.Sprintf("history %d: read-only op %s changed the object graph (not reproduced on the second pass)", hidx, tok))
			}
		} else {
			h0, _ := snapshotHash(roots)
			res = f()
			h1, _ := snapshotHash(roots)
			if h0 != h1 && firstDiffRO == 0 {
				firstDiffRO = roCount
			}
		}
		if len(res) > 0 && res[0] == -1 {
			stats[2]++
		}
		emit(tok, res)
	}
	newNode := func() {
		name, id, nifs := 10+r.intn(4), 1+r.intn(6), 1+r.intn(3)
		n := acmelib.NewNode(fmt.Sprintf("n%d", name), acmelib.NodeID(id), nifs)
		c.nodeH[n.EntityID()] = len(c.nodes)
		c.nodes = append(c.nodes, n)
		ib := make([]int, nifs)
		for i := range ib {
			ib[i] = -1
		}
		c.ifBus = append(c.ifBus, ib)
		emit(fmt.Sprintf("nn:%d:%d:%d", name, id, nifs), []int{0})
	}
	newBus := func() {
		b := acmelib.NewBus(fmt.Sprintf("b%d", len(c.buses)))
		baud := []int{0, 125000, 500000}[r.intn(3)]
		b.SetBaudrate(baud)
		if r.chance(40) {
			// custom builder with operations past bit 31 (legal through Use*); Calculate must not
			// rewrite them: the model keeps the operation list as created
			cb := acmelib.NewCANIDBuilder(fmt.Sprintf("cb%d", len(c.buses)))
			cb.UseNodeID(0, 4).UseMessageID(24, 11).UseNodeID(28, 8).UseBitMask(30, 4).UseMessageID(4, 0).UseNodeID(33, 2).UseBitMask(0, 40)
			b.SetCANIDBuilder(cb)
			c.hidden = append(c.hidden, cb)
		}
		c.buses = append(c.buses, b)
		emit(fmt.Sprintf("nb:%d:%s", baud, dash(ints(builderFlat(b.CANIDBuilder())))), []int{0})
	}
	newEnum := func() {
		e := acmelib.NewSignalEnum(fmt.Sprintf("e%d", len(c.enums)))
		c.enumH[e.EntityID()] = len(c.enums)
		c.enums = append(c.enums, e)
		c.vals = append(c.vals, map[int]*acmelib.SignalEnumValue{})
		c.valIdx = append(c.valIdx, map[int]int{})
		c.refs = append(c.refs, nil)
		c.caps = append(c.caps, map[int]int{})
		c.refKind = append(c.refKind, 0)
		emit("ne", []int{0})
	}
	newBus()
	newNode()
	newNode()
	newEnum()
	// shared pools: attribute definitions, signal types, units (read by every exporter worker)
	for a := range c.attrs {
		emit("nd:"+ints(attrDef(c.attrs[a])), []int{0})
	}
	flagT := acmelib.NewFlagSignalType("flag")
	int8T, _ := acmelib.NewIntegerSignalType("int8", 8, false)
	for _, ty := range []*acmelib.SignalType{flagT, int8T} {
		c.typeH[ty.EntityID()] = len(c.types)
		c.types = append(c.types, ty)
		emit("nt:"+ints(typeFields(ty)), []int{0})
	}
	for u := 0; u < 2; u++ {
		un := acmelib.NewSignalUnit(fmt.Sprintf("unit%d", u), acmelib.SignalUnitKindCustom, fmt.Sprintf("u%d", 80+u))
		c.unitH[un.EntityID()] = len(c.units)
		c.units = append(c.units, un)
		emit(fmt.Sprintf("nu:%d", 80+u), []int{0})
	}
	addMsg := func(m *acmelib.Message, holdsEnum bool) {
		c.msgH[m.EntityID()] = len(c.msgs)
		c.msgs = append(c.msgs, m)
		c.hasSend = append(c.hasSend, false)
		c.noSend = append(c.noSend, holdsEnum)
		c.recvOf = append(c.recvOf, map[int]bool{})
	}
	steps := 25 + r.intn(40)
	for s := 0; s < steps; s++ {
		k := r.intn(100)
		switch {
		case k < 4:
			if len(c.nodes) < 5 {
				newNode()
			}
		case k < 6:
			if len(c.buses) < 3 {
				newBus()
			}
		case k < 8:
			if len(c.enums) < 3 {
				newEnum()
			}
		case k < 12: // new message with a few flag signals
			id := c.nextMsg
			c.nextMsg++
			prio, bytes, cyc := r.intn(4), 1+r.intn(8), pow2[r.intn(8)]
			m := acmelib.NewMessage(fmt.Sprintf("m%d", id), acmelib.MessageID(id), bytes)
			m.SetPriority(acmelib.MessagePriority(prio))
			m.SetCycleTime(cyc)
			var ss []int
			for j := 0; j < r.intn(4); j++ {
				// a standard signal of a shared type (and maybe a shared unit) enters the signal table
				sg := c.nextSig
				ti, ui := r.intn(len(c.types)), r.intn(len(c.units)+1)-1
				sig, err := acmelib.NewStandardSignal(fmt.Sprintf("s%d", sg), c.types[ti])
				if err != nil {
					continue
				}
				if ui >= 0 {
					sig.SetUnit(c.units[ui])
				}
				c.nextSig++
				c.sigTab = append(c.sigTab, sig)
				c.sigObjs = append(c.sigObjs, sig)
				c.sigID[sig.EntityID()] = sg
				emit(fmt.Sprintf("ns:%d:%d", ti, ui), []int{0})
				if m.AppendSignal(sig) == nil {
					ss = append(ss, sg)
				}
			}
			addMsg(m, false)
			emit(fmt.Sprintf("nm:%d:%d:%d:%d:%s", id, prio, bytes, cyc, dash(ints(ss))), []int{0})
		case k < 16: // sender
			if len(c.msgs) == 0 {
				continue
			}
			m := r.intn(len(c.msgs))
			n := r.intn(len(c.nodes))
			if c.hasSend[m] || c.noSend[m] || c.recvOf[m][n] {
				continue
			}
			i := r.intn(len(c.ifBus[n]))
			err := c.nodes[n].Interfaces()[i].AddSentMessage(c.msgs[m])
			res := []int{0}
			if err != nil {
				res = []int{-1}
			} else {
				c.hasSend[m] = true
			}
			emit(fmt.Sprintf("ms:%d:%d:%d", m, n, i), res)
		case k < 18: // static CAN-ID
			if len(c.msgs) == 0 {
				continue
			}
			m := r.intn(len(c.msgs))
			if c.msgs[m].HasStaticCANID() {
				continue
			}
			cid := 0x700 + m
			res := []int{0}
			if c.msgs[m].SetStaticCANID(acmelib.CANID(cid)) != nil {
				res = []int{-1}
			}
			emit(fmt.Sprintf("mc:%d:%d", m, cid), res)
		case k < 20:
			b, a := r.intn(len(c.buses)), r.intn(len(c.attrs))
			if _, err := c.buses[b].GetAttributeAssignment(c.attrs[a].EntityID()); err == nil {
				continue
			}
			res := []int{0}
			if c.buses[b].AssignAttribute(c.attrs[a], "x") != nil {
				res = []int{-1}
			}
			emit(fmt.Sprintf("ba:%d:%d", b, a), res)
		case k < 30: // attach
			n := r.intn(len(c.nodes))
			i := r.intn(len(c.ifBus[n]))
			if c.ifBus[n][i] >= 0 {
				continue
			}
			b := r.intn(len(c.buses))
			err := c.buses[b].AddNodeInterface(c.nodes[n].Interfaces()[i])
			res := []int{0}
			if err != nil {
				res = nodeErr(err)
			} else {
				c.ifBus[n][i] = b
			}
			emit(fmt.Sprintf("at:%d:%d:%d", n, i, b), res)
		case k < 42: // rename: the small name pool makes collisions on shared buses frequent
			n := r.intn(len(c.nodes))
			nm := 10 + r.intn(4)
			err := c.nodes[n].UpdateName(fmt.Sprintf("n%d", nm))
			res := []int{0}
			if err != nil {
				res = nodeErr(err)
				stats[1]++
			}
			emit(fmt.Sprintf("rn:%d:%d", n, nm), res)
		case k < 46:
			n, a := r.intn(len(c.nodes)), r.intn(len(c.attrs))
			res := []int{0}
			if err := c.nodes[n].AssignAttribute(c.attrs[a], "v"); err != nil {
				res = nodeErr(err)
			}
			emit(fmt.Sprintf("aa:%d:%d", n, a), res)
		case k < 50:
			n, a := r.intn(len(c.nodes)), r.intn(len(c.attrs))
			res := []int{0}
			if err := c.nodes[n].RemoveAttributeAssignment(c.attrs[a].EntityID()); err != nil {
				res = nodeErr(err)
			}
			emit(fmt.Sprintf("ra:%d:%d", n, a), res)
		case k < 56: // referencing enum signal, detached or as the only signal of its own message
			e := r.intn(len(c.enums))
			sg := c.nextSig
			sig, err := acmelib.NewEnumSignal(fmt.Sprintf("es%d", sg), c.enums[e])
			if err != nil {
				continue
			}
			c.nextSig++
			c.sigTab = append(c.sigTab, sig)
			var ownMsg *acmelib.Message
			capBits, inMsg := -1, 0
			// all capped references of one enum have the same kind of parent: which failing
			// reference sets the hint depends on map order, and the error route (the only
			// observable of that choice) must not
			kk := r.intn(10)
			if c.refKind[e] == 1 && kk >= 5 && kk < 8 {
				kk = 0
			} else if c.refKind[e] == 2 && kk < 5 {
				kk = 6
			}
			switch {
			case kk < 5: // the only signal of its own message
				bytes := (c.enums[e].GetSize()+7)/8 + r.intn(2)
				if bytes > 8 {
					bytes = 8
				}
				hm := acmelib.NewMessage(fmt.Sprintf("hidden%d", sg), acmelib.MessageID(5000+sg), bytes)
				if hm.AppendSignal(sig) == nil {
					capBits, inMsg = bytes*8, 1
					c.refKind[e] = 1
					ownMsg = hm
				}
			case kk < 8: // the only signal of group 0 of a multiplexer signal that is in no message
				gsize := c.enums[e].GetSize() + r.intn(6)
				if gsize > 56 {
					gsize = 56
				}
				if mux, err := acmelib.NewMultiplexerSignal(fmt.Sprintf("hmux%d", sg), 2, gsize); err == nil {
					if mux.InsertSignal(sig, 0, 0) == nil {
						capBits = gsize
						c.refKind[e] = 2
						c.hidden = append(c.hidden, mux)
					}
				}
			}
			c.sigObjs = append(c.sigObjs, sig)
			c.sigID[sig.EntityID()] = sg
			c.refs[e] = append(c.refs[e], sg)
			c.caps[e][sg] = capBits
			cs := "-"
			if capBits >= 0 {
				cs = strconv.Itoa(capBits)
			}
			emit(fmt.Sprintf("er:%d:%d:%s:%d", e, sg, cs, inMsg), []int{0})
			if ownMsg != nil {
				// the message is a message of the model too (exported, looked up, received)
				addMsg(ownMsg, true)
				emit(fmt.Sprintf("nm:%d:0:%d:0:%d", int(ownMsg.ID()), ownMsg.SizeByte(), sg), []int{0})
			}
		case k < 72: // add value: small, duplicate index, duplicate name, or too big for a capped signal
			e := r.intn(len(c.enums))
			v := c.nextVal
			idx := r.intn(6)
			switch r.intn(5) {
			case 0:
				idx = 1 << uint(3+r.intn(30))
			case 1:
				idx = 200 + r.intn(60000)
			case 2: // duplicate NAME: reuse the handle of a value already in the enum
				for hv := range c.vals[e] {
					v = hv
					break
				}
			}
			if v == c.nextVal {
				c.nextVal++
			}
			obj := acmelib.NewSignalEnumValue(fmt.Sprintf("v%d", v), idx)
			err := c.enums[e].AddValue(obj)
			res := []int{0}
			if err != nil {
				res = c.enumErr(e, err)
				if errors.Is(err, acmelib.ErrNoSpaceLeft) {
					stats[1]++
				}
			} else {
				c.vals[e][v] = obj
				c.valIdx[e][v] = idx
				c.valH[obj.EntityID()] = v
			}
			emit(fmt.Sprintf("av:%d:%d:%d:-", e, v, idx), res)
		case k < 76: // remove value (hit or miss)
			e := r.intn(len(c.enums))
			v := 1 + r.intn(c.nextVal)
			id := acmelib.EntityID("missing")
			if obj, ok := c.vals[e][v]; ok {
				id = obj.EntityID()
			}
			err := c.enums[e].RemoveValue(id)
			res := []int{0}
			if err != nil {
				res = c.enumErr(e, err)
			} else {
				delete(c.vals[e], v)
				delete(c.valIdx[e], v)
			}
			emit(fmt.Sprintf("rv:%d:%d", e, v), res)
		case k < 80: // reindex, only calls that the code refuses (or no-ops): see Model.v MEnumReindex
			e := r.intn(len(c.enums))
			if len(c.vals[e]) == 0 {
				continue
			}
			var hv int
			for h := range c.vals[e] {
				hv = h
				break
			}
			idx := c.valIdx[e][hv]
			mode := r.intn(3)
			if mode == 0 {
				for h2, i2 := range c.valIdx[e] {
					if h2 != hv {
						idx = i2
					}
				}
			} else if mode == 1 {
				minCap := -1
				for _, cp := range c.caps[e] {
					if cp >= 0 && (minCap < 0 || cp < minCap) {
						minCap = cp
					}
				}
				if minCap < 0 || minCap >= 62 {
					continue
				}
				idx = 1 << uint(minCap)
				if idx <= c.enums[e].MaxIndex() {
					continue
				}
			}
			err := c.vals[e][hv].UpdateIndex(idx)
			res := []int{0}
			if err != nil {
				res = c.enumErr(e, err)
				if errors.Is(err, acmelib.ErrNoSpaceLeft) {
					stats[1]++
				}
			} else if idx != c.valIdx[e][hv] {
				// accepted although predicted to fail: leave it to the model comparison
				c.valIdx[e][hv] = idx
			}
			emit(fmt.Sprintf("ri:%d:%d:%d:-", e, hv, idx), res)
		case k < 83: // attribute on a signal / message (shared attribute objects)
			a := r.intn(len(c.attrs))
			if r.chance(50) && len(c.sigTab) > 0 {
				sg := r.intn(len(c.sigTab))
				res := []int{0}
				if c.sigTab[sg].AssignAttribute(c.attrs[a], "v") != nil {
					res = []int{-1}
				}
				emit(fmt.Sprintf("sa:%d:%d", sg, a), res)
			} else if len(c.msgs) > 0 {
				m := r.intn(len(c.msgs))
				res := []int{0}
				if c.msgs[m].AssignAttribute(c.attrs[a], "v") != nil {
					res = []int{-1}
				}
				emit(fmt.Sprintf("ma:%d:%d", m, a), res)
			}
		case k < 88: // multiplexer signal with two groups of fresh standard signals (the groups' own slices are handed out by GetSignalGroups)
			mux, err := acmelib.NewMultiplexerSignal(fmt.Sprintf("mx%d", c.nextSig), 2, 24)
			if err != nil {
				continue
			}
			var groups [][]int
			for g := 0; g < 2; g++ {
				var hs []int
				start := 0
				for j := 0; j < r.intn(3); j++ {
					ti := r.intn(len(c.types))
					sig, err := acmelib.NewStandardSignal(fmt.Sprintf("s%d", c.nextSig), c.types[ti])
					if err != nil {
						continue
					}
					sg := c.nextSig
					c.nextSig++
					c.sigTab = append(c.sigTab, sig)
					c.sigObjs = append(c.sigObjs, sig)
					c.sigID[sig.EntityID()] = sg
					emit(fmt.Sprintf("ns:%d:-1", ti), []int{0})
					if mux.InsertSignal(sig, start, g) == nil {
						hs = append(hs, sg)
						start += sig.GetSize()
					}
				}
				groups = append(groups, hs)
			}
			sg := c.nextSig
			c.nextSig++
			c.sigTab = append(c.sigTab, mux)
			c.sigObjs = append(c.sigObjs, mux)
			c.sigID[mux.EntityID()] = sg
			emit(fmt.Sprintf("nx:%s/%s", dash(ints(groups[0])), dash(ints(groups[1]))), []int{0})
		case k < 90: // receiver (never the sender's node, one interface per node: D22 is C05's)
			if len(c.msgs) == 0 {
				continue
			}
			m := r.intn(len(c.msgs))
			n := r.intn(len(c.nodes))
			if c.recvOf[m][n] {
				continue
			}
			if sn := c.msgs[m].SenderNodeInterface(); sn != nil && c.nodeH[sn.Node().EntityID()] == n {
				continue
			}
			i := r.intn(len(c.ifBus[n]))
			res := []int{0}
			if c.msgs[m].AddReceiver(c.nodes[n].Interfaces()[i]) != nil {
				res = []int{-1}
			} else {
				c.recvOf[m][n] = true
			}
			emit(fmt.Sprintf("mr:%d:%d:%d", m, n, i), res)
		default: // read-only operations
			c.readOp(r, snapRO)
		}
	}
	// every history ends with the two error-path lookups on every node / enum
	for n := range c.nodes {
		n := n
		snapRO(fmt.Sprintf("Rga:%d:%d", n, 99), func() []int {
			_, err := c.nodes[n].GetAttributeAssignment("no-such-attribute")
			return nodeErr(err)
		})
	}
	for e := range c.enums {
		e := e
		snapRO(fmt.Sprintf("Rgv:%d:%d", e, 999999), func() []int {
			_, err := c.enums[e].GetValue("no-such-value")
			return c.enumErr(e, err)
		})
	}
	return strings.Join(toks, " "), stats, firstDiffRO
}

func (c *cworld) readOp(r *rng, snapRO func(string, func() []int)) {
	switch r.intn(26) {
	case 23:
		if len(c.sigTab) == 0 {
			return
		}
		sg := r.intn(len(c.sigTab))
		// prefer a multiplexer signal when there is one
		for tries := 0; tries < 3 && c.sigTab[sg].Kind() != acmelib.SignalKindMultiplexer; tries++ {
			sg = r.intn(len(c.sigTab))
		}
		snapRO(fmt.Sprintf("Rsg:%d", sg), func() []int {
			var res []int
			if mux, err := c.sigTab[sg].ToMultiplexer(); err == nil {
				for _, g := range mux.GetSignalGroups() {
					for _, s := range g {
						res = append(res, c.sigID[s.EntityID()])
					}
					res = append(res, -1)
				}
			}
			return res
		})
	case 24:
		if len(c.msgs) == 0 {
			return
		}
		m := r.intn(len(c.msgs))
		snapRO(fmt.Sprintf("Rmf:%d", m), func() []int {
			msg := c.msgs[m]
			return []int{int(msg.ID()), int(msg.Priority()), msg.SizeByte(), msg.CycleTime()}
		})
	case 25:
		// Network.Buses() on a network holding every bus of the history (buses are named b0, b1, ...:
		// sorted by name = by handle).  The network exists only for this call: the buses of the
		// histories stay outside networks (their error routes end at the bus).
		snapNet := func() []int {
			net := acmelib.NewNetwork("tmpnet")
			for _, b := range c.buses {
				if net.AddBus(b) != nil {
					return []int{-1}
				}
			}
			var res []int
			for _, b := range net.Buses() {
				res = append(res, c.busHandle(b))
			}
			net.RemoveAllBuses()
			return res
		}
		res := snapNet()
		snapRO("Rnb", func() []int { return res })
	case 15:
		b := r.intn(len(c.buses))
		snapRO(fmt.Sprintf("Rba:%d", b), func() []int {
			var res []int
			for _, aa := range c.buses[b].AttributeAssignments() {
				res = append(res, c.attrH[aa.Attribute().EntityID()])
			}
			return res
		})
	case 16:
		if len(c.msgs) == 0 {
			return
		}
		m := r.intn(len(c.msgs))
		snapRO(fmt.Sprintf("Rmr:%d", m), func() []int {
			type rk struct{ name, enc int }
			var rs []rk
			for _, ni := range c.msgs[m].Receivers() {
				nm, _ := strconv.Atoi(strings.TrimPrefix(ni.Node().Name(), "n"))
				rs = append(rs, rk{nm, c.nodeH[ni.Node().EntityID()]*1024 + ni.Number()})
			}
			// the code breaks name ties by entity id (not modelled): ties are re-ordered by handle
			sort.SliceStable(rs, func(i, j int) bool {
				return rs[i].name < rs[j].name || (rs[i].name == rs[j].name && rs[i].enc < rs[j].enc)
			})
			var res []int
			for _, x := range rs {
				res = append(res, x.enc)
			}
			return res
		})
	case 17:
		if len(c.msgs) == 0 {
			return
		}
		m := r.intn(len(c.msgs))
		snapRO(fmt.Sprintf("Rma:%d", m), func() []int {
			var res []int
			for _, aa := range c.msgs[m].AttributeAssignments() {
				res = append(res, c.attrH[aa.Attribute().EntityID()])
			}
			return res
		})
	case 18:
		if len(c.sigTab) == 0 {
			return
		}
		sg := r.intn(len(c.sigTab))
		snapRO(fmt.Sprintf("Rsf:%d", sg), func() []int {
			res := []int{-1, -1, -1}
			sig := c.sigTab[sg]
			if st, err := sig.ToStandard(); err == nil {
				res[0] = c.typeH[st.Type().EntityID()]
				if u := st.Unit(); u != nil {
					res[1] = c.unitH[u.EntityID()]
				}
			}
			if es, err := sig.ToEnum(); err == nil {
				res[2] = c.enumH[es.Enum().EntityID()]
			}
			return res
		})
	case 19:
		if len(c.sigTab) == 0 {
			return
		}
		sg := r.intn(len(c.sigTab))
		snapRO(fmt.Sprintf("Rsa:%d", sg), func() []int {
			var res []int
			for _, aa := range c.sigTab[sg].AttributeAssignments() {
				res = append(res, c.attrH[aa.Attribute().EntityID()])
			}
			return res
		})
	case 20:
		t := r.intn(len(c.types))
		snapRO(fmt.Sprintf("Rtf:%d", t), func() []int { return typeFields(c.types[t]) })
	case 21:
		u := r.intn(len(c.units))
		snapRO(fmt.Sprintf("Ruf:%d", u), func() []int {
			v, _ := strconv.Atoi(strings.TrimPrefix(c.units[u].Symbol(), "u"))
			return []int{v}
		})
	case 22:
		a := r.intn(len(c.attrs))
		snapRO(fmt.Sprintf("Rad:%d", a), func() []int { return attrDef(c.attrs[a]) })
	case 0:
		n, a := r.intn(len(c.nodes)), r.intn(len(c.attrs)+1)
		snapRO(fmt.Sprintf("Rga:%d:%d", n, a), func() []int {
			id := acmelib.EntityID("missing")
			if a < len(c.attrs) {
				id = c.attrs[a].EntityID()
			}
			aa, err := c.nodes[n].GetAttributeAssignment(id)
			if err != nil {
				return nodeErr(err)
			}
			return []int{0, c.attrH[aa.Attribute().EntityID()]}
		})
	case 1:
		e := r.intn(len(c.enums))
		v := 1 + r.intn(c.nextVal)
		snapRO(fmt.Sprintf("Rgv:%d:%d", e, v), func() []int {
			id := acmelib.EntityID("missing")
			if obj, ok := c.vals[e][v]; ok {
				id = obj.EntityID()
			}
			val, err := c.enums[e].GetValue(id)
			if err != nil {
				return c.enumErr(e, err)
			}
			return []int{0, c.valH[val.EntityID()], val.Index()}
		})
	case 2:
		n := r.intn(len(c.nodes))
		snapRO(fmt.Sprintf("Rnf:%d", n), func() []int {
			nd := c.nodes[n]
			nm, _ := strconv.Atoi(strings.TrimPrefix(nd.Name(), "n"))
			res := []int{nm, int(nd.ID())}
			for _, ni := range nd.Interfaces() {
				if b := ni.ParentBus(); b != nil {
					res = append(res, c.busHandle(b))
				} else {
					res = append(res, -1)
				}
			}
			return res
		})
	case 3:
		n := r.intn(len(c.nodes))
		snapRO(fmt.Sprintf("Rna:%d", n), func() []int {
			var res []int
			for _, aa := range c.nodes[n].AttributeAssignments() {
				res = append(res, c.attrH[aa.Attribute().EntityID()])
			}
			return res
		})
	case 4:
		n := r.intn(len(c.nodes))
		snapRO(fmt.Sprintf("Rns:%d", n), func() []int {
			nd := c.nodes[n]
			_ = nd.String()
			nm, _ := strconv.Atoi(strings.TrimPrefix(nd.Name(), "n"))
			return []int{nm, int(nd.ID())}
		})
	case 5:
		e := r.intn(len(c.enums))
		snapRO(fmt.Sprintf("Rev:%d", e), func() []int {
			var res []int
			for _, v := range c.enums[e].Values() {
				res = append(res, c.valH[v.EntityID()])
			}
			return res
		})
	case 6:
		e := r.intn(len(c.enums))
		snapRO(fmt.Sprintf("Rez:%d", e), func() []int {
			en := c.enums[e]
			return []int{en.GetSize(), en.MaxIndex(), en.MinSize()}
		})
	case 7:
		e := r.intn(len(c.enums))
		snapRO(fmt.Sprintf("Res:%d", e), func() []int {
			en := c.enums[e]
			_ = en.String()
			res := []int{en.MaxIndex()}
			for _, v := range en.Values() {
				res = append(res, c.valH[v.EntityID()])
			}
			return append(res, en.ReferenceCount())
		})
	case 8:
		b := r.intn(len(c.buses))
		snapRO(fmt.Sprintf("Rbf:%d", b), func() []int {
			bus := c.buses[b]
			res := append([]int{bus.Baudrate()}, builderFlat(bus.CANIDBuilder())...)
			for _, aa := range bus.AttributeAssignments() {
				res = append(res, c.attrH[aa.Attribute().EntityID()])
			}
			return res
		})
	case 9:
		b := r.intn(len(c.buses))
		snapRO(fmt.Sprintf("Rbn:%d", b), func() []int {
			var res []int
			for _, ni := range c.buses[b].NodeInterfaces() {
				res = append(res, c.nodeH[ni.Node().EntityID()]*1024+ni.Number())
			}
			return res
		})
	case 10:
		b := r.intn(len(c.buses))
		nm := 10 + r.intn(4)
		snapRO(fmt.Sprintf("Rbl:%d:%d", b, nm), func() []int {
			ni, err := c.buses[b].GetNodeInterfaceByNodeName(fmt.Sprintf("n%d", nm))
			if err != nil {
				return nodeErr(err)
			}
			return []int{0, c.nodeH[ni.Node().EntityID()]}
		})
	case 11:
		n := r.intn(len(c.nodes))
		i := r.intn(len(c.ifBus[n]))
		snapRO(fmt.Sprintf("Rsm:%d:%d", n, i), func() []int {
			var res []int
			for _, m := range c.nodes[n].Interfaces()[i].SentMessages() {
				res = append(res, c.msgH[m.EntityID()])
			}
			return res
		})
	case 12:
		if len(c.msgs) == 0 {
			return
		}
		m := r.intn(len(c.msgs))
		snapRO(fmt.Sprintf("Rms:%d", m), func() []int {
			var res []int
			for _, s := range c.msgs[m].Signals() {
				res = append(res, c.sigID[s.EntityID()])
			}
			_ = c.msgs[m].SignalLayout().Decode(make([]byte, 8))
			return res
		})
	case 13:
		if len(c.msgs) == 0 {
			return
		}
		m := r.intn(len(c.msgs))
		snapRO(fmt.Sprintf("Rmc:%d", m), func() []int {
			msg := c.msgs[m]
			cid := int(msg.GetCANID())
			if msg.HasStaticCANID() {
				return []int{1, cid}
			}
			ni := msg.SenderNodeInterface()
			if ni == nil || ni.ParentBus() == nil {
				return []int{2, cid}
			}
			res := []int{3, int(msg.Priority()), int(msg.ID()), int(ni.Node().ID())}
			return append(res, builderFlat(ni.ParentBus().CANIDBuilder())...)
		})
	case 14:
		b := r.intn(len(c.buses))
		snapRO(fmt.Sprintf("Rld:%d", b), func() []int {
			bus := c.buses[b]
			acmelib.CalculateBusLoad(bus, 8)
			res := []int{bus.Baudrate()}
			for _, ni := range bus.NodeInterfaces() {
				for _, m := range ni.SentMessages() {
					res = append(res, m.SizeByte(), m.CycleTime())
				}
			}
			return res
		})
	}
}

func typeFields(t *acmelib.SignalType) []int {
	sg := 0
	if t.Signed() {
		sg = 1
	}
	return []int{t.Size(), sg, int(t.Min()), int(t.Max()), int(t.Scale()), int(t.Offset())}
}

func attrDef(a acmelib.Attribute) []int {
	res := []int{int(a.Type())}
	if sa, err := a.ToString(); err == nil {
		v, _ := strconv.Atoi(strings.TrimPrefix(sa.DefValue(), "d"))
		res = append(res, v)
	}
	return res
}

func (c *cworld) busHandle(b *acmelib.Bus) int {
	for i, x := range c.buses {
		if x == b {
			return i
		}
	}
	return -2
}
