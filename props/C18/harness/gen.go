package main

import (
	"fmt"

	acmelib "github.com/squadracorsepolito/acmelib"
	"github.com/squadracorsepolito/acmelib/dbc"
)

// globalRoot is a package-level variable of the library (overlay hook), snapshotted under its name.
type globalRoot struct {
	Name string
	Ptr  any
}

func globalRoots() []any {
	var rs []any
	for _, g := range acmelib.VerifC18Globals() {
		rs = append(rs, globalRoot{"acmelib." + g.Name, g.Ptr})
	}
	for _, g := range dbc.VerifC18Globals() {
		rs = append(rs, globalRoot{"dbc." + g.Name, g.Ptr})
	}
	return rs
}

// world is one shared model built by a random construction history through the public API:
// several buses sharing nodes (one interface per bus), signal types, units, enums, attributes
// and CAN-ID builders.
type world struct {
	net      *acmelib.Network
	buses    []*acmelib.Bus
	nodes    []*acmelib.Node
	ifaces   []*acmelib.NodeInterface
	msgs     []*acmelib.Message
	sigs     []acmelib.Signal
	muxes    []*acmelib.MultiplexerSignal
	types    []*acmelib.SignalType
	units    []*acmelib.SignalUnit
	enums    []*acmelib.SignalEnum
	attrs    []acmelib.Attribute
	builders []*acmelib.CANIDBuilder
	detached []any

	hasMux         bool
	ovfBuilder     int   // index in builders of the builder with operations past bit 31
	ovfBuses       []int // buses sharing it
	resetBuses     []int // buses reset to the default builder with SetCANIDBuilder(nil) as the last construction step
	ifaceBus       []int // per interface: bus index or -1
	msgBus         []int // per message: bus it is sent on, or -1
	deep           bool
	deepBus        int  // bus of the deep message (-1: none)
	multiGroup     bool // a signal inserted into two groups of a multiplexer by two calls, lower group id second
	extremeTimings int  // timing values at / beyond the declared bounds of the well-known attributes
	hintOps        int  // failing mutators that set and clear an error-context hint
	buildOps       int
	buildErr       int
	desc           string
}

func try(w *world, f func() error) (ok bool) {
	w.buildOps++
	defer func() {
		if r := recover(); r != nil {
			// a panic inside a MUTATOR is another property's business (C06); the model that
			// results is still a model and is used as is
			w.buildErr++
			ok = false
		}
	}()
	if err := f(); err != nil {
		w.buildErr++
		return false
	}
	return true
}

var pow2 = []int{1, 2, 4, 8, 16, 32, 64, 128, 256, 512, 1024}

func buildWorld(r *rng, idx int, allowMux bool) *world {
	w := &world{deepBus: -1}
	w.net = acmelib.NewNetwork(fmt.Sprintf("net %d", idx))
	if r.chance(50) {
		w.net.SetDesc("network description")
	}

	// ---- shared pools -------------------------------------------------------------------
	// signal types with pairwise distinct sizes (the Markdown exporter orders types by size only:
	// equal sizes would make its sequential output order-of-map dependent, which is C15's matter)
	w.types = append(w.types, acmelib.NewFlagSignalType("flag_t"))
	sizes := []int{2, 3, 4, 5, 6, 7, 8, 10, 12, 16}
	nt := 3 + r.intn(5)
	for i := 0; i < nt; i++ {
		sz := sizes[i]
		var t *acmelib.SignalType
		var err error
		switch r.intn(3) {
		case 0:
			t, err = acmelib.NewIntegerSignalType(fmt.Sprintf("int%d_t", sz), sz, r.chance(50))
		case 1:
			t, err = acmelib.NewDecimalSignalType(fmt.Sprintf("dec%d_t", sz), sz, r.chance(50))
		default:
			t, err = acmelib.NewCustomSignalType(fmt.Sprintf("cus%d_t", sz), sz, r.chance(50), -100, 100, 0.5, float64(r.intn(5)))
		}
		if err == nil && t != nil {
			w.types = append(w.types, t)
		}
	}
	for i := 0; i < 1+r.intn(3); i++ {
		w.units = append(w.units, acmelib.NewSignalUnit(fmt.Sprintf("unit_%d", i), acmelib.SignalUnitKind(r.intn(4)), []string{"V", "A", "degC", "W"}[r.intn(4)]))
	}
	for i := 0; i < 1+r.intn(3); i++ {
		e := acmelib.NewSignalEnum(fmt.Sprintf("enum_%d", i))
		nv := 1 + r.intn(5)
		for j := 0; j < nv; j++ {
			v := acmelib.NewSignalEnumValue(fmt.Sprintf("val_%d_%d", i, j), j+r.intn(2)*j)
			try(w, func() error { return e.AddValue(v) })
		}
		w.enums = append(w.enums, e)
	}
	// attributes (distinct names)
	w.attrs = append(w.attrs, acmelib.NewStringAttribute("att_str", "def"))
	if a, err := acmelib.NewIntegerAttribute("att_int", 5, 0, 1000); err == nil {
		if r.chance(40) {
			a.SetFormatHex()
		}
		w.attrs = append(w.attrs, a)
	}
	if a, err := acmelib.NewFloatAttribute("att_flt", 1.5, -10, 10); err == nil {
		w.attrs = append(w.attrs, a)
	}
	if a, err := acmelib.NewEnumAttribute("att_enum", "one", "two", "three"); err == nil {
		w.attrs = append(w.attrs, a)
	}
	attrVal := func(a acmelib.Attribute) any {
		switch a.Type() {
		case acmelib.AttributeTypeString:
			return fmt.Sprintf("s%d", r.intn(9))
		case acmelib.AttributeTypeInteger:
			return r.intn(1000)
		case acmelib.AttributeTypeFloat:
			return float64(r.intn(20))/2 - 5
		default:
			return []string{"one", "two", "three"}[r.intn(3)]
		}
	}
	assignSome := func(ent acmelib.AttributableEntity, pct int) {
		for _, a := range w.attrs {
			if r.chance(pct) {
				a := a
				try(w, func() error { return ent.AssignAttribute(a, attrVal(a)) })
			}
		}
	}
	// CAN-ID builders shared between buses
	for i := 0; i < 1+r.intn(2); i++ {
		b := acmelib.NewCANIDBuilder(fmt.Sprintf("builder_%d", i))
		b.UseNodeID(0, 3+r.intn(3)).UseMessageID(6, 8+r.intn(4)).UseMessagePriority(26)
		if r.chance(50) {
			b.UseBitMask(0, 29)
		}
		w.builders = append(w.builders, b)
	}
	// a builder whose operations do not fit the 32 bits of a CAN-ID (all legal through Use*):
	// from+len > 32, from >= 32, len 0, len > 32.  calculateOp must cope with them WITHOUT touching
	// the shared operation objects; it is shared by two buses below.
	ovf := acmelib.NewCANIDBuilder("builder_overflow")
	ovf.UseNodeID(0, 4).UseMessageID(24, 11).UseNodeID(28, 8).UseMessagePriority(31)
	switch r.intn(4) {
	case 0:
		ovf.UseBitMask(30, 4)
	case 1:
		ovf.UseNodeID(33, 2).UseMessageID(4, 0)
	case 2:
		ovf.UseBitMask(0, 40)
	default:
		ovf.UseMessageID(2, 31).UseBitMask(30, 4)
	}
	w.builders = append(w.builders, ovf)
	w.ovfBuilder = len(w.builders) - 1
	shareOvf := allowMux || r.chance(60)

	// ---- buses ----------------------------------------------------------------------------
	nb := 2 + r.intn(3)
	for i := 0; i < nb; i++ {
		b := acmelib.NewBus(fmt.Sprintf("bus_%d", i))
		if r.chance(80) {
			b.SetBaudrate([]int{125000, 250000, 500000, 1000000}[r.intn(4)])
		}
		if shareOvf && i < 2 {
			b.SetCANIDBuilder(ovf) // buses 0 and 1 share the overflow builder
			w.ovfBuses = append(w.ovfBuses, i)
		} else if r.chance(60) {
			b.SetCANIDBuilder(w.builders[r.intn(len(w.builders))])
		}
		if r.chance(50) {
			b.SetDesc(fmt.Sprintf("bus %d description", i))
		}
		assignSome(b, 40)
		try(w, func() error { return w.net.AddBus(b) })
		w.buses = append(w.buses, b)
	}

	// ---- nodes: interface k of a node goes to a distinct bus (buses share nodes) -----------
	nn := 2 + r.intn(4)
	for i := 0; i < nn; i++ {
		nif := 1 + r.intn(nb)
		n := acmelib.NewNode(fmt.Sprintf("node_%d", i), acmelib.NodeID(i+1), nif)
		if r.chance(40) {
			n.SetDesc("node description")
		}
		assignSome(n, 40)
		w.nodes = append(w.nodes, n)
		first := r.intn(nb)
		for k, ni := range n.Interfaces() {
			ni := ni
			b := w.buses[(first+k)%nb]
			onBus := -1
			if r.chance(90) {
				if try(w, func() error { return b.AddNodeInterface(ni) }) {
					onBus = (first + k) % nb
				}
			}
			w.ifaces = append(w.ifaces, ni)
			w.ifaceBus = append(w.ifaceBus, onBus)
		}
	}

	// ---- messages and signals -----------------------------------------------------------------
	msgID := 1
	sigN := 0
	newStd := func() acmelib.Signal {
		sigN++
		s, err := acmelib.NewStandardSignal(fmt.Sprintf("sig_%d", sigN), w.types[r.intn(len(w.types))])
		if err != nil {
			return nil
		}
		if r.chance(50) {
			s.SetUnit(w.units[r.intn(len(w.units))])
		}
		return s
	}
	newEnum := func() acmelib.Signal {
		sigN++
		s, err := acmelib.NewEnumSignal(fmt.Sprintf("sig_%d", sigN), w.enums[r.intn(len(w.enums))])
		if err != nil {
			return nil
		}
		return s
	}
	decorate := func(s acmelib.Signal) {
		if r.chance(30) {
			s.SetDesc("signal description")
		}
		if r.chance(30) {
			s.SetStartValue(float64(r.intn(4)))
		}
		if r.chance(30) {
			s.SetSendType(acmelib.SignalSendType(r.intn(8)))
		}
		assignSome(s, 20)
	}
	for niIdx, ni := range w.ifaces {
		nm := r.intn(4)
		for j := 0; j < nm; j++ {
			size := 1 + r.intn(8)
			m := acmelib.NewMessage(fmt.Sprintf("msg_%d", msgID), acmelib.MessageID(msgID), size)
			msgID++
			if r.chance(70) {
				m.SetCycleTime(pow2[r.intn(len(pow2))])
			}
			if r.chance(30) {
				m.SetDelayTime(1 + r.intn(50))
			}
			if r.chance(30) {
				m.SetStartDelayTime(1 + r.intn(50))
			}
			// timing values AT and BEYOND the declared ranges of the package-level well-known attributes
			// (GenMsgCycleTime 0..3600000, GenMsgDelayTime 0..1000, GenMsgStartDelayTime 0..100000): the
			// setters accept anything, the exporters attach the GLOBAL attribute objects to them.  Cycle
			// times stay powers of two (exact bus-load sums in any order): 2^22, 2^23 > 3600000.
			if r.chance(22) {
				m.SetCycleTime([]int{1 << 22, 1 << 23, -8, 1 << 21}[r.intn(4)])
				w.extremeTimings++
			}
			if r.chance(22) {
				m.SetDelayTime([]int{1000, 1001, 2000, -5, 7200000}[r.intn(5)])
				w.extremeTimings++
			}
			if r.chance(22) {
				m.SetStartDelayTime([]int{100000, 100001, 200000, -1}[r.intn(4)])
				w.extremeTimings++
			}
			if r.chance(40) {
				m.SetSendType(acmelib.MessageSendType(r.intn(5)))
			}
			m.SetPriority(acmelib.MessagePriority(r.intn(4)))
			if r.chance(30) {
				m.SetByteOrder(acmelib.MessageByteOrderBigEndian)
			}
			if r.chance(40) {
				m.SetDesc("message description")
			}
			assignSome(m, 30)
			ns := r.intn(5)
			for k := 0; k < ns; k++ {
				var s acmelib.Signal
				if r.chance(35) {
					s = newEnum()
				} else {
					s = newStd()
				}
				if s == nil {
					continue
				}
				decorate(s)
				if try(w, func() error { return m.AppendSignal(s) }) {
					w.sigs = append(w.sigs, s)
				} else {
					w.detached = append(w.detached, s)
				}
			}
			if allowMux && size >= 3 && r.chance(35) {
				sigN++
				mux, err := acmelib.NewMultiplexerSignal(fmt.Sprintf("mux_%d", sigN), 2+r.intn(3), 8)
				if err == nil {
					for g := 0; g < 2; g++ {
						if in := newStd(); in != nil {
							in := in
							g := g
							try(w, func() error { return mux.InsertSignal(in, 0, g) })
						}
					}
					if try(w, func() error { return m.AppendSignal(mux) }) {
						w.hasMux = true
						w.muxes = append(w.muxes, mux)
						w.sigs = append(w.sigs, mux)
					}
				}
			}
			sentOn := -1
			if r.chance(92) {
				if try(w, func() error { return ni.AddSentMessage(m) }) {
					sentOn = w.ifaceBus[niIdx]
				}
			}
			w.msgBus = append(w.msgBus, sentOn)
			for _, rc := range w.ifaces {
				if rc != ni && r.chance(20) {
					rc := rc
					try(w, func() error { return m.AddReceiver(rc) })
				}
			}
			if r.chance(15) {
				cid := acmelib.CANID(0x700 + msgID)
				try(w, func() error { return m.SetStaticCANID(cid) })
			}
			w.msgs = append(w.msgs, m)
		}
	}

	// ---- a tail of random edits, including FAILING ones that go through the hint protocol -------
	ne := 5 + r.intn(15)
	for i := 0; i < ne; i++ {
		switch r.intn(9) {
		case 0: // rename a node to the name of another node on a shared bus: refused, intErrNum set+cleared
			a, b := w.nodes[r.intn(len(w.nodes))], w.nodes[r.intn(len(w.nodes))]
			if a != b {
				if !try(w, func() error { return a.UpdateName(b.Name()) }) {
					w.hintOps++
				}
			}
		case 1: // enum value that cannot fit: parErrID set+cleared
			e := w.enums[r.intn(len(w.enums))]
			v := acmelib.NewSignalEnumValue(fmt.Sprintf("big_%d", i), 1<<uint(8+r.intn(50)))
			if !try(w, func() error { return e.AddValue(v) }) {
				w.hintOps++
			}
		case 2: // duplicate enum index
			e := w.enums[r.intn(len(w.enums))]
			v := acmelib.NewSignalEnumValue(fmt.Sprintf("dup_%d", i), 0)
			try(w, func() error { return e.AddValue(v) })
		case 3:
			if len(w.msgs) > 0 {
				m := w.msgs[r.intn(len(w.msgs))]
				m.CompactSignals()
			}
		case 4:
			if len(w.msgs) > 0 {
				m := w.msgs[r.intn(len(w.msgs))]
				if ss := m.Signals(); len(ss) > 0 {
					id := ss[r.intn(len(ss))].EntityID()
					try(w, func() error { m.ShiftSignalRight(id, 1+r.intn(4)); return nil })
				}
			}
		case 5:
			if len(w.msgs) > 0 {
				m := w.msgs[r.intn(len(w.msgs))]
				if ss := m.Signals(); len(ss) > 1 && r.chance(50) {
					s := ss[r.intn(len(ss))]
					if s.Kind() != acmelib.SignalKindMultiplexer {
						if try(w, func() error { return m.RemoveSignal(s.EntityID()) }) {
							w.detached = append(w.detached, s)
						}
					}
				}
			}
		case 6:
			n := w.nodes[r.intn(len(w.nodes))]
			try(w, func() error { return n.RemoveAttributeAssignment("no-such-attribute") })
		case 7:
			if len(w.msgs) > 0 {
				m := w.msgs[r.intn(len(w.msgs))]
				nm := fmt.Sprintf("msg_renamed_%d", i)
				try(w, func() error { return m.UpdateName(nm) })
			}
		case 8:
			n := w.nodes[r.intn(len(w.nodes))]
			if r.chance(30) {
				n.AddInterface()
			}
		}
	}
	if allowMux {
		w.addDeepNesting(r)
	}
	// LAST construction step, nothing reads the bus afterwards: a bus that had a custom builder goes
	// back to the default one with SetCANIDBuilder(nil).  A lazily created default builder would be
	// written by the first READER of the bus (GetCANID, CANIDBuilder(), String, the exporters).
	if nb >= 3 || !shareOvf {
		ri := nb - 1
		w.buses[ri].SetCANIDBuilder(w.builders[0])
		w.buses[ri].SetCANIDBuilder(nil)
		w.resetBuses = append(w.resetBuses, ri)
	}
	w.desc = fmt.Sprintf("deep=%v buses=%d nodes=%d ifaces=%d msgs=%d sigs=%d types=%d enums=%d mux=%v hintops=%d builderr=%d/%d",
		w.deep, len(w.buses), len(w.nodes), len(w.ifaces), len(w.msgs), len(w.sigs), len(w.types), len(w.enums), w.hasMux, w.hintOps, w.buildErr, w.buildOps)
	return w
}

// addDeepNesting adds a message whose payload nests as deep as the model allows:
// multiplexer > multiplexer > enum signal (with values) + standard signal (type, unit), every
// level with attributes and descriptions, sent on the first bus.  String()/stringify reach their
// greatest indentation depth here, the exporters their multiplexer paths.
func (w *world) addDeepNesting(r *rng) bool {
	if len(w.ifaces) == 0 || len(w.enums) == 0 {
		return false
	}
	ok := true
	step := func(f func() error) {
		if ok && !try(w, f) {
			ok = false
		}
	}
	msg := acmelib.NewMessage("deep_msg", acmelib.MessageID(900+r.intn(50)), 8)
	msg.SetDesc("deep message")
	outer, err := acmelib.NewMultiplexerSignal("deep_outer_mux", 2, 40)
	if err != nil {
		return false
	}
	inner, err := acmelib.NewMultiplexerSignal("deep_inner_mux", 2, 24)
	if err != nil {
		return false
	}
	en := w.enums[0]
	es, err := acmelib.NewEnumSignal("deep_enum_sig", en)
	if err != nil {
		return false
	}
	es.SetDesc("deep enum signal")
	ss, err := acmelib.NewStandardSignal("deep_std_sig", w.types[len(w.types)-1])
	if err != nil {
		return false
	}
	if len(w.units) > 0 {
		ss.SetUnit(w.units[0])
	}
	step(func() error { return inner.InsertSignal(es, 0, 1) })
	step(func() error { return inner.InsertSignal(ss, 0, 0) })
	step(func() error { return outer.InsertSignal(inner, 0, 1) })
	if fl, err := acmelib.NewStandardSignal("deep_flag_sig", w.types[0]); err == nil {
		step(func() error { return outer.InsertSignal(fl, 0, 0) })
	}
	// a signal held by SEVERAL groups, put there by several InsertSignal calls with the LOWER group id
	// second: the stored list of its group ids is not ascending (an exporter that sorted it in place
	// would write the model)
	if multi, err := acmelib.NewStandardSignal("deep_multi_group_sig", w.types[0]); err == nil {
		okMulti := try(w, func() error { return outer.InsertSignal(multi, 30, 1) })
		okMulti = okMulti && try(w, func() error { return outer.InsertSignal(multi, 30, 0) })
		if okMulti {
			w.multiGroup = true
		}
	}
	step(func() error { return msg.AppendSignal(outer) })
	for _, a := range w.attrs {
		if a.Type() == acmelib.AttributeTypeString {
			a := a
			try(w, func() error { return es.AssignAttribute(a, "deep") })
			try(w, func() error { return inner.AssignAttribute(a, "deep") })
		}
	}
	var ni *acmelib.NodeInterface
	niBus := -1
	for i, x := range w.ifaces { // prefer a bus that uses the overflow builder
		if w.ifaceBus[i] >= 0 && (ni == nil || (w.ifaceBus[i] < 2 && len(w.ovfBuses) > 0 && niBus >= 2)) {
			ni, niBus = x, w.ifaceBus[i]
		}
	}
	if ni == nil || !ok {
		return false
	}
	step(func() error { return ni.AddSentMessage(msg) })
	if !ok {
		return false
	}
	w.msgs = append(w.msgs, msg)
	w.msgBus = append(w.msgBus, niBus)
	w.deepBus = niBus
	w.muxes = append(w.muxes, outer, inner)
	w.sigs = append(w.sigs, outer, inner, es, ss)
	w.hasMux = true
	w.deep = true
	return true
}

// roots of the deep snapshot: everything the harness holds plus the package-level objects
func (w *world) roots() []any {
	rs := []any{w.net}
	for _, x := range w.buses {
		rs = append(rs, x)
	}
	for _, x := range w.nodes {
		rs = append(rs, x)
	}
	for _, x := range w.msgs {
		rs = append(rs, x)
	}
	for _, x := range w.sigs {
		rs = append(rs, x)
	}
	for _, x := range w.types {
		rs = append(rs, x)
	}
	for _, x := range w.units {
		rs = append(rs, x)
	}
	for _, x := range w.enums {
		rs = append(rs, x)
	}
	for _, x := range w.attrs {
		rs = append(rs, x)
	}
	for _, x := range w.builders {
		rs = append(rs, x)
	}
	rs = append(rs, w.detached...)
	rs = append(rs, globalRoots()...)
	return rs
}
