// C18 harness: read-only use and network export are free of data races.
//
// Phases (VERIF_PHASE):
//
//	snap   deep snapshot before/after every read-only operation on models built by random
//	       construction histories (correspondence for ro_no_write: no field changes)
//	corr   hint-protocol histories recorded for the extracted Coq model (props/C18/driver)
//	race   (binary built with -race) N goroutines running seeded mixes of read-only operations
//	       on ONE shared model, ExportNetwork against sequential ExportBus, the early-return
//	       scenario; results compared with the sequential run; the race detector reports into
//	       GORACE log_path
package main

import (
	"bufio"
	"bytes"
	"fmt"
	"os"
	"path/filepath"
	"reflect"
	"runtime"
	"sort"
	"strconv"
	"strings"
	"sync"

	acmelib "github.com/squadracorsepolito/acmelib"
)

type report struct {
	f        *os.File
	w        *bufio.Writer
	hist     map[string]int
	counters map[string]int
	fails    map[string]string // signature -> first (shortest) detail
	samples  []string
}

func newReport(path string) *report {
	f, err := os.Create(path)
	if err != nil {
		panic(err)
	}
	return &report{f: f, w: bufio.NewWriter(f), hist: map[string]int{}, counters: map[string]int{}, fails: map[string]string{}}
}

func (r *report) fail(sig, detail string) {
	detail = strings.ReplaceAll(detail, "\n", "\\n")
	if old, ok := r.fails[sig]; !ok || len(detail) < len(old) {
		r.fails[sig] = detail
	}
}

func must(err error, what string) {
	if err != nil {
		fmt.Fprintf(os.Stderr, "harness I/O error (%s): %v\n", what, err)
		os.Exit(3)
	}
}

func (r *report) close() {
	var ks []string
	for k := range r.counters {
		ks = append(ks, k)
	}
	sort.Strings(ks)
	for _, k := range ks {
		fmt.Fprintf(r.w, "%s %d\n", k, r.counters[k])
	}
	ks = ks[:0]
	for k := range r.hist {
		ks = append(ks, k)
	}
	sort.Strings(ks)
	for _, k := range ks {
		fmt.Fprintf(r.w, "hist %s %d\n", k, r.hist[k])
	}
	ks = ks[:0]
	for k := range r.fails {
		ks = append(ks, k)
	}
	sort.Strings(ks)
	for _, k := range ks {
		fmt.Fprintf(r.w, "FAIL %s %s\n", k, r.fails[k])
	}
	for _, s := range r.samples {
		fmt.Fprintf(r.w, "SAMPLE %s\n", strings.ReplaceAll(s, "\n", "\\n"))
	}
	// the summary is complete only with this marker (a truncated file is not a clean run)
	fmt.Fprintf(r.w, "END %d\n", len(r.counters)+len(r.hist)+len(r.fails)+len(r.samples))
	must(r.w.Flush(), "summary flush")
	must(r.f.Close(), "summary close")
}

func envInt(name string, def int) int {
	if v := os.Getenv(name); v != "" {
		if n, err := strconv.Atoi(v); err == nil {
			return n
		}
	}
	return def
}

func main() {
	seed, _ := strconv.ParseUint(os.Getenv("VERIF_SEED"), 10, 64)
	if seed == 0 {
		seed = 20260930
	}
	out := os.Getenv("VERIF_OUT")
	if out == "" {
		out = "c18.out"
	}
	rep := newReport(out)
	defer rep.close()
	switch os.Getenv("VERIF_PHASE") {
	case "snap":
		snapPhase(rep, seed, envInt("VERIF_MODELS", 30), envInt("VERIF_OPS", 150), envInt("VERIF_ONLY", -1))
	case "corr":
		corrPhase(rep, seed, envInt("VERIF_MODELS", 200), os.Getenv("VERIF_CASES"))
	case "race":
		racePhase(rep, seed, envInt("VERIF_MODELS", 30), envInt("VERIF_OPS", 40), envInt("VERIF_ONLY", -1), os.Getenv("VERIF_SCRATCH"))
	case "cold":
		coldPhase(rep, seed, envInt("VERIF_MODELS", 3), envInt("VERIF_OPS", 25))
	case "earlyret":
		earlyRetPhase(rep, seed, envInt("VERIF_MODELS", 4), os.Getenv("VERIF_SCRATCH"))
	default:
		fmt.Fprintln(os.Stderr, "VERIF_PHASE must be snap|corr|race|earlyret")
		os.Exit(2)
	}
}

func modelRng(seed uint64, idx int) *rng {
	return newRng(seed*0x9E3779B97F4A7C15 + uint64(idx)*0x632BE59BD9B4E019 + 17)
}

// ---------------------------------------------------------------- snapshot phase

func snapPhase(rep *report, seed uint64, models, nops, only int) {
	for idx := 0; idx < models; idx++ {
		if only >= 0 && idx != only {
			continue
		}
		r := modelRng(seed, idx)
		w := buildWorld(r, idx, idx%4 == 3)
		roots := w.roots()
		hPre, _ := snapshotHash(roots)
		// enumerating the receivers calls getters (CANIDBuilder(), AttributeAssignments(), Values(),
		// SignalLayout(), Filters(), Decode): the first reads after construction are bracketed too
		t := newOpTable(w)
		h0, cnt := snapshotHash(roots)
		if h0 != hPre {
			r2 := modelRng(seed, idx)
			w2 := buildWorld(r2, idx, idx%4 == 3)
			roots2 := w2.roots()
			before := snapshotLines(roots2)
			newOpTable(w2)
			after := snapshotLines(roots2)
			field, detail := "unreproduced", "the write did not reproduce on the rebuilt model"
			if d := diffLines(before, after); d != "" {
				field, detail = changedField(before, after), d
			}
			rep.fail("snapshot-write:"+field, fmt.Sprintf("model=%d: the FIRST read-only calls after construction (CANIDBuilder(), AttributeAssignments(), Values(), SignalLayout(), Filters(), Decode on every object) wrote shared state: %s", idx, detail))
		}
		g0 := globalHashes(roots)
		rep.counters["snap_models"]++
		rep.counters["snap_fields"] += cnt
		if w.hintOps > 0 {
			rep.counters["snap_models_with_hint_history"]++
		}
		if idx < 2 {
			rep.samples = append(rep.samples, fmt.Sprintf("snap model %d: %s; receivers=%d; %d snapshot fields", idx, w.desc, len(t.recvs), cnt))
		}
		seenClass := map[string]bool{}
		for k := 0; k < nops; k++ {
			op := t.genOp(r)
			res := t.run(op)
			h1, _ := snapshotHash(roots)
			rep.counters["snap_ops"]++
			rep.hist[op.class]++
			if strings.HasPrefix(res, "PANIC:") {
				rep.counters["snap_ops_panicking_sequentially(not-C18)"]++
			}
			key := t.recvLabel(op) + "." + op.class
			if !seenClass[key] {
				seenClass[key] = true
			}
			if idx == 0 && k < 6 {
				rep.samples = append(rep.samples, fmt.Sprintf("op %s => %s", op.desc, res))
			}
			if h1 != h0 {
				field, detail := findSnapDiff(seed, idx, k, nops)
				if field == "unreproduced" {
					// first-use write to process-global state: name the variable
					g1 := globalHashes(roots)
					for name, h := range g1 {
						if g0[name] != h {
							field, detail = "global("+name+")", "package-level variable "+name+" of the library was written by a read-only operation (first use in the process; it does not repeat)"
						}
					}
					g0 = g1
				}
				rep.fail("snapshot-write:"+field,
					fmt.Sprintf("model=%d op#%d %s wrote shared state: %s (replay: VERIF_PHASE=snap VERIF_ONLY=%d)", idx, k, op.desc, detail, idx))
				h0 = h1
			}
		}
		for k := range seenClass {
			rep.hist["recvmethod:"+k] = 1
		}
	}
}

func (t *opTable) recvLabel(op roOp) string {
	if op.free != 0 {
		return "pkg"
	}
	return t.recvs[op.recv].label
}

func (t *opTable) recvType(op roOp) string {
	if op.free != 0 {
		return "acmelib"
	}
	return t.recvs[op.recv].v.Type().String()
}

// findSnapDiff rebuilds the same model (same seed: same structure, fresh entity ids), replays the
// same operations and names the field that operation k changes.
func findSnapDiff(seed uint64, idx, k, nops int) (string, string) {
	r := modelRng(seed, idx)
	w := buildWorld(r, idx, idx%4 == 3)
	t := newOpTable(w)
	roots := w.roots()
	for i := 0; i < k; i++ {
		t.run(t.genOp(r))
	}
	before := snapshotLines(roots)
	op := t.genOp(r)
	t.run(op)
	after := snapshotLines(roots)
	if d := diffLines(before, after); d != "" {
		return changedField(before, after), d
	}
	return "unreproduced", "the write did not reproduce on the rebuilt model"
}

// ---------------------------------------------------------------- cold concurrent phase

// coldPhase runs in a FRESH process and performs no read-only operation of the library before
// the goroutines start: a lazily initialised table or cache (per object, or process-global such as
// an indentation-string table grown on demand) is written for the first time WHILE other
// goroutines read it, which is the only moment the race detector can see it.  Every model
// contains the deep nesting of addDeepNesting (multiplexer > multiplexer > enum signal with
// values) and every kind of entity; each goroutine starts with a deep String / export / save and
// continues with the seeded mix.  The sequential reference is computed AFTERWARDS.
func coldPhase(rep *report, seed uint64, models, nops int) {
	const T = 12
	rep.counters["gomaxprocs"] = runtime.GOMAXPROCS(0)
	for idx := 0; idx < models; idx++ {
		r := modelRng(seed^0xC01D, idx)
		w := buildWorld(r, idx, true)
		t := newOpTableCold(w)
		roots := w.roots()
		lists := make([][]roOp, T)
		netIdx := t.byLab["net"][0]
		stringOf := func(ri int) roOp {
			rc := &t.recvs[ri]
			for _, mi := range rc.methods {
				if rc.v.Type().Method(mi).Name == "String" {
					return roOp{recv: ri, method: mi, class: "String", desc: rc.label + ".String()", lazy: []int{}}
				}
			}
			return t.genOp(r)
		}
		// first-use writes on the CAN-ID path: a message sent on a bus that uses the builder whose
		// operations go past bit 31, and that builder itself
		methodOf := func(ri int, name string, args ...uint64) (roOp, bool) {
			rc := &t.recvs[ri]
			for _, mi := range rc.methods {
				m := rc.v.Type().Method(mi)
				if m.Name != name || m.Type.NumIn()-1 != len(args) {
					continue
				}
				op := roOp{recv: ri, method: mi, class: name, desc: rc.label + "." + name + "()", lazy: []int{}}
				for a, v := range args {
					x := reflect.New(m.Type.In(a + 1)).Elem()
					x.SetUint(v)
					op.args = append(op.args, x)
					op.lazy = append(op.lazy, -1)
				}
				return op, true
			}
			return roOp{}, false
		}
		var ovfMsgs []int
		for mi, b := range w.msgBus {
			for _, ob := range w.ovfBuses {
				if b == ob {
					ovfMsgs = append(ovfMsgs, t.byLab["msg"][mi])
				}
			}
		}
		if len(ovfMsgs) > 0 {
			rep.counters["cold_rounds_with_overflow_builder_messages"]++
		}
		// buses reset with SetCANIDBuilder(nil) as the last construction step: nobody has read them yet
		var resetMsgs []int
		for mi, b := range w.msgBus {
			for _, rb := range w.resetBuses {
				if b == rb {
					resetMsgs = append(resetMsgs, t.byLab["msg"][mi])
				}
			}
		}
		if len(w.resetBuses) > 0 {
			rep.counters["cold_rounds_with_nil_reset_bus"]++
		}
		for g := 0; g < T; g++ {
			gr := r.fork(uint64(g + 1))
			var first roOp
			switch g % 12 {
			case 8:
				if len(w.resetBuses) > 0 {
					if op, ok := methodOf(t.byLab["bus"][w.resetBuses[0]], "CANIDBuilder"); ok {
						first = op
						break
					}
				}
				first = stringOf(netIdx)
			case 9:
				if len(resetMsgs) > 0 {
					if op, ok := methodOf(resetMsgs[gr.intn(len(resetMsgs))], "GetCANID"); ok {
						first = op
						break
					}
				}
				first = roOp{free: 2, desc: "ExportToMarkdown(net)", class: "ExportToMarkdown"}
			case 10:
				if len(w.resetBuses) > 0 {
					first = stringOf(t.byLab["bus"][w.resetBuses[0]])
				} else {
					first = stringOf(netIdx)
				}
			case 11:
				first = roOp{free: 5, recv: 7, method: 0, desc: "SaveNetwork(net,enc=7,all writers fail)", class: "SaveNetworkFailingWriters"}
			case 7:
				// a SECOND concurrent DBC export of the bus of the deep message (two exports of one bus
				// before any export of it has completed)
				if w.deepBus >= 0 {
					first = roOp{free: 1, recv: w.deepBus, desc: fmt.Sprintf("ExportBus(bus#%d)", w.deepBus), class: "ExportBus"}
					break
				}
				first = stringOf(netIdx)
			case 1:
				if len(ovfMsgs) > 0 {
					if op, ok := methodOf(ovfMsgs[gr.intn(len(ovfMsgs))], "GetCANID"); ok {
						first = op
						break
					}
				}
				first = stringOf(netIdx)
			case 6:
				if op, ok := methodOf(t.byLab["builder"][w.ovfBuilder], "Calculate", 1, 0x7ff, 0xff); ok {
					first = op
				} else {
					first = stringOf(netIdx)
				}
			case 0:
				first = stringOf(netIdx)
			case 2:
				first = roOp{free: 2, desc: "ExportToMarkdown(net)", class: "ExportToMarkdown"}
			case 3:
				first = roOp{free: 3, recv: 7, desc: "SaveNetwork(net,enc=7)", class: "SaveNetwork"}
			case 4:
				b := gr.intn(len(w.buses))
				if len(w.ovfBuses) > 0 {
					b = w.ovfBuses[gr.intn(len(w.ovfBuses))]
				}
				if w.deepBus >= 0 {
					b = w.deepBus
				}
				first = roOp{free: 1, recv: b, desc: fmt.Sprintf("ExportBus(bus#%d)", b), class: "ExportBus"}
			default:
				ms := t.byLab["msg"]
				first = stringOf(ms[len(ms)-1]) // the deep message is the last one
			}
			lists[g] = append(lists[g], first)
			for k := 1; k < nops; k++ {
				lists[g] = append(lists[g], t.genOp(gr))
			}
		}
		h0, _ := snapshotHash(roots)
		con := make([][]string, T)
		start := make(chan struct{})
		var wg sync.WaitGroup
		for g := 0; g < T; g++ {
			wg.Add(1)
			go func(g int) {
				defer wg.Done()
				res := make([]string, 0, len(lists[g]))
				<-start
				for _, op := range lists[g] {
					res = append(res, t.run(op))
				}
				con[g] = res
			}(g)
		}
		close(start)
		wg.Wait()
		h1, _ := snapshotHash(roots)
		rep.counters["cold_rounds"]++
		rep.counters["race_ops"] += T * nops
		if w.deep {
			rep.counters["cold_rounds_with_deep_nesting"]++
		}
		if w.multiGroup {
			rep.counters["cold_rounds_with_multi_group_signal"]++
		}
		if h1 != h0 {
			rep.fail("cold-snapshot-changed", fmt.Sprintf("cold model=%d: shared state (model or package-level variables) differs after the first, concurrent, read-only use", idx))
		}
		// sequential reference AFTER the concurrent run
		for g := 0; g < T; g++ {
			for k, op := range lists[g] {
				if seq := t.run(op); !sameResult(rep, seq, con[g][k]) {
					kind := "concurrent-result:"
					if strings.HasPrefix(seq, "PANIC:") || strings.HasPrefix(con[g][k], "PANIC:") {
						kind = "concurrent-panic:"
					}
					rep.fail(kind+t.recvType(op)+"."+op.class,
						fmt.Sprintf("cold model=%d goroutine=%d op#%d %s: concurrent (first use) %q, sequential afterwards %q", idx, g, k, op.desc, con[g][k], seq))
				}
			}
		}
		if idx == 0 {
			rep.samples = append(rep.samples, fmt.Sprintf("cold model 0 (%s): 8 goroutines start with %s | %s | %s | %s | %s ; then the mix", w.desc,
				lists[0][0].desc, lists[2][0].desc, lists[3][0].desc, lists[4][0].desc, lists[5][0].desc))
		}
	}
}

// ---------------------------------------------------------------- concurrent phase

func racePhase(rep *report, seed uint64, models, nops, only int, scratch string) {
	threadCounts := []int{2, 8, 32}
	rep.counters["gomaxprocs"] = runtime.GOMAXPROCS(0)
	for idx := 0; idx < models; idx++ {
		if only >= 0 && idx != only {
			continue
		}
		r := modelRng(seed, idx)
		w := buildWorld(r, idx, idx%4 == 3)
		t := newOpTable(w)
		roots := w.roots()
		rep.counters["race_models"]++
		if w.extremeTimings > 0 {
			rep.counters["race_models_with_out_of_range_timings"]++
		}
		shared := sharedness(w)
		// PRELUDE of FAILING read-only calls in this process, before any concurrent round: exports and
		// saves into failing writers, lookups of unknown ids / names.  An error path that leaves
		// process-global or model state behind (a pooled exporter released twice, a hint left set)
		// only shows in the calls that FOLLOW it.
		failingPrelude(rep, w)
		for _, T := range threadCounts {
			lists := make([][]roOp, T)
			exportsInRound := 0
			// shorter lists for more goroutines: about the same work per round
			per := nops
			if T == 2 {
				per = nops * 3 / 2
			} else if T == 32 {
				per = nops * 2 / 5
			}
			for g := 0; g < T; g++ {
				gr := r.fork(uint64(g + 1))
				for k := 0; k < per; k++ {
					op := t.genOp(gr)
					if k == 0 && g < 3 {
						// several goroutines start with ExportToMarkdown (after the failing prelude)
						op = roOp{free: 2, desc: "ExportToMarkdown(net)", class: "ExportToMarkdown"}
					}
					if op.free != 0 {
						exportsInRound++
					}
					lists[g] = append(lists[g], op)
				}
			}
			// sequential reference
			seq := make([][]string, T)
			for g := 0; g < T; g++ {
				for _, op := range lists[g] {
					seq[g] = append(seq[g], t.run(op))
				}
			}
			h0, _ := snapshotHash(roots)
			con := make([][]string, T)
			start := make(chan struct{})
			var wg sync.WaitGroup
			for g := 0; g < T; g++ {
				wg.Add(1)
				go func(g int) {
					defer wg.Done()
					res := make([]string, 0, len(lists[g]))
					<-start
					for _, op := range lists[g] {
						res = append(res, t.run(op))
					}
					con[g] = res
				}(g)
			}
			close(start)
			wg.Wait()
			h1, _ := snapshotHash(roots)
			rep.counters["race_rounds"]++
			rep.counters["race_ops"] += T * per
			rep.hist[fmt.Sprintf("threads=%d", T)]++
			if shared && exportsInRound > 0 {
				rep.counters["race_rounds_nontrivial"]++
			}
			if h1 != h0 {
				rep.fail("concurrent-snapshot-changed", fmt.Sprintf("model=%d threads=%d: the shared model differs after a purely read-only concurrent round", idx, T))
			}
			for g := 0; g < T; g++ {
				for k := range lists[g] {
					if !sameResult(rep, seq[g][k], con[g][k]) {
						op := lists[g][k]
						if strings.HasPrefix(seq[g][k], "PANIC:") || strings.HasPrefix(con[g][k], "PANIC:") {
							rep.fail("concurrent-panic:"+t.recvType(op)+"."+op.class,
								fmt.Sprintf("model=%d threads=%d goroutine=%d op#%d %s: sequential %q, concurrent %q", idx, T, g, k, op.desc, seq[g][k], con[g][k]))
						} else {
							rep.fail("concurrent-result:"+t.recvType(op)+"."+op.class,
								fmt.Sprintf("model=%d threads=%d goroutine=%d op#%d %s: sequential %q, concurrent %q", idx, T, g, k, op.desc, seq[g][k], con[g][k]))
						}
					} else if strings.HasPrefix(seq[g][k], "PANIC:") {
						rep.counters["race_ops_panicking_also_sequentially(not-C18)"]++
					}
				}
			}
			if idx == 0 && T == 8 {
				rep.samples = append(rep.samples, fmt.Sprintf("race model 0 (%s) threads=8: goroutine 0 runs %s ; %s ; %s ...", w.desc, lists[0][0].desc, lists[0][1].desc, lists[0][2].desc))
			}
		}
		errorPathStorm(rep, w, r, idx, roots)
		exportNetworkRound(rep, w, t, r, idx, scratch, roots)
		// LAST (its own fork of the stream: the cases above are unchanged): payloads decoded in a
		// shared receive buffer (rxbuf.go)
		rxBufferRounds(rep, w, r.fork(0x7278), idx, 6)
	}
}

// separate process: on the defective code a leaked worker PANICS inside the library (its file is
// closed under it), which cannot be recovered from here and takes the process down
func earlyRetPhase(rep *report, seed uint64, rounds int, scratch string) {
	for i := 0; i < rounds; i++ {
		earlyReturnRound(rep, seed, i, scratch)
		rep.w.Flush()
	}
	for i := 0; i < rounds; i++ {
		collisionRound(rep, i, scratch)
	}
}

// collisionRound: two buses whose names map to the same file name ("a b" and "a_b" both become
// a_b.dbc).  A sequential export (ExportBus per bus, in Buses() order, each into a freshly created
// file) leaves a complete DBC file of one of the two buses; so must the concurrent one, unless it
// refuses the network with an error.
func collisionRound(rep *report, i int, scratch string) {
	net := acmelib.NewNetwork(fmt.Sprintf("collide_%d", i))
	typ, _ := acmelib.NewIntegerSignalType("t8", 8, false)
	var outs []string
	for bi, name := range []string{"a b", "a_b"} {
		bus := acmelib.NewBus(name)
		net.AddBus(bus)
		node := acmelib.NewNode(fmt.Sprintf("node_%d", bi), acmelib.NodeID(bi+1), 1)
		bus.AddNodeInterface(node.Interfaces()[0])
		for m := 0; m < 40+60*bi; m++ {
			msg := acmelib.NewMessage(fmt.Sprintf("m_%d_%d", bi, m), acmelib.MessageID(m+1), 8)
			for sg := 0; sg < 4+3*bi; sg++ {
				sig, _ := acmelib.NewStandardSignal(fmt.Sprintf("s_%d_%d_%d", bi, m, sg), typ)
				msg.AppendSignal(sig)
			}
			node.Interfaces()[0].AddSentMessage(msg)
		}
		var buf bytes.Buffer
		acmelib.ExportBus(&buf, bus)
		outs = append(outs, buf.String())
	}
	dir := filepath.Join(scratch, fmt.Sprintf("collide-%d-%d", runtime.GOMAXPROCS(0), i))
	os.MkdirAll(dir, 0o777)
	err := acmelib.ExportNetwork(net, dir)
	rep.counters["collision_rounds"]++
	if err != nil {
		rep.counters["collision_refused"]++
		return
	}
	data, rerr := os.ReadFile(filepath.Join(dir, fmt.Sprintf("collide_%d", i), "a_b.dbc"))
	if rerr != nil {
		rep.fail("exportnetwork-missing-file", fmt.Sprintf("collision scenario: %v", rerr))
		return
	}
	if got := string(data); got != outs[0] && got != outs[1] {
		rep.fail("exportnetwork-two-workers-one-file",
			fmt.Sprintf("buses %q and %q are both exported to a_b.dbc by two concurrent workers: the file (%d bytes) is neither bus's DBC (%d / %d bytes) but a mixture of both; first difference from either at byte %d / %d",
				"a b", "a_b", len(got), len(outs[0]), len(outs[1]), firstDiff(got, outs[0]), firstDiff(got, outs[1])))
	}
}

// errorPathStorm: every goroutine hammers the ERROR paths of the lookups on the same shared
// objects (this is where the hint fields Node.intErrNum / SignalEnum.parErrID are read and,
// when set, cleared): GetAttributeAssignment / GetValue / GetSignal / GetSignalByName /
// GetNodeInterfaceByNodeName / GetInterface / GetSentMessageByName misses and refused conversions.
func errorPathStorm(rep *report, w *world, r *rng, idx int, roots []any) {
	var calls []func() string
	for _, n := range w.nodes {
		n := n
		calls = append(calls, func() string { _, err := n.GetAttributeAssignment("missing"); return errSig(err) })
		calls = append(calls, func() string { _, err := n.GetInterface(-1); return errSig(err) })
		calls = append(calls, func() string { _, err := n.GetInterface(99); return errSig(err) })
	}
	for _, e := range w.enums {
		e := e
		calls = append(calls, func() string { _, err := e.GetValue("missing"); return errSig(err) })
	}
	for _, m := range w.msgs {
		m := m
		calls = append(calls, func() string { _, err := m.GetSignal("missing"); return errSig(err) })
		calls = append(calls, func() string { _, err := m.GetSignalByName("missing"); return errSig(err) })
		calls = append(calls, func() string { _, err := m.GetAttributeAssignment("missing"); return errSig(err) })
	}
	for _, b := range w.buses {
		b := b
		calls = append(calls, func() string { _, err := b.GetNodeInterfaceByNodeName("missing"); return errSig(err) })
		calls = append(calls, func() string { _, err := b.GetAttributeAssignment("missing"); return errSig(err) })
	}
	for _, ni := range w.ifaces {
		ni := ni
		calls = append(calls, func() string { _, err := ni.GetSentMessageByName("missing"); return errSig(err) })
	}
	for _, sg := range w.sigs {
		sg := sg
		calls = append(calls, func() string { _, err := sg.GetAttributeAssignment("missing"); return errSig(err) })
		calls = append(calls, func() string {
			_, e1 := sg.ToStandard()
			_, e2 := sg.ToEnum()
			_, e3 := sg.ToMultiplexer()
			return errSig(e1) + errSig(e2) + errSig(e3)
		})
	}
	for _, a := range w.attrs {
		a := a
		calls = append(calls, func() string {
			_, e1 := a.ToString()
			_, e2 := a.ToInteger()
			_, e3 := a.ToFloat()
			_, e4 := a.ToEnum()
			return errSig(e1) + errSig(e2) + errSig(e3) + errSig(e4)
		})
	}
	safe := func(f func() string) (res string) {
		defer func() {
			if p := recover(); p != nil {
				res = "PANIC:" + fmt.Sprint(p)
			}
		}()
		return f()
	}
	seq := make([]string, len(calls))
	for i, f := range calls {
		seq[i] = safe(f)
	}
	h0, _ := snapshotHash(roots)
	const T = 8
	start := make(chan struct{})
	var wg sync.WaitGroup
	bad := make([]string, T)
	for g := 0; g < T; g++ {
		gr := r.fork(uint64(500 + g))
		wg.Add(1)
		go func(g int) {
			defer wg.Done()
			<-start
			for k := 0; k < 2*len(calls); k++ {
				i := gr.intn(len(calls))
				if got := safe(calls[i]); got != seq[i] && bad[g] == "" {
					bad[g] = fmt.Sprintf("call %d: sequential %q, concurrent %q", i, seq[i], got)
				}
			}
		}(g)
	}
	close(start)
	wg.Wait()
	h1, _ := snapshotHash(roots)
	rep.counters["errorpath_storm_rounds"]++
	rep.counters["race_ops"] += T * 2 * len(calls)
	if h1 != h0 {
		rep.fail("errorpath-storm-snapshot-changed", fmt.Sprintf("model=%d: the shared model differs after concurrent failing lookups", idx))
	}
	for _, b := range bad {
		if b != "" {
			rep.fail("errorpath-storm-result", fmt.Sprintf("model=%d %s", idx, b))
		}
	}
}

func failingPrelude(rep *report, w *world) {
	safe := func(f func()) {
		defer func() { recover() }()
		f()
	}
	for mode := 0; mode < 12; mode += 3 {
		mode := mode
		safe(func() { acmelib.ExportToMarkdown(w.net, newFailWriter(0, mode)) })
		safe(func() {
			acmelib.SaveNetwork(w.net, acmelib.SaveEncoding(7), newFailWriter(0, mode), newFailWriter(1, mode), newFailWriter(2, mode))
		})
		safe(func() { acmelib.ExportBus(newFailWriter(0, mode), w.buses[mode%len(w.buses)]) })
	}
	for _, e := range w.enums {
		e := e
		safe(func() { e.GetValue("no-such-value") })
	}
	for _, n := range w.nodes {
		n := n
		safe(func() { n.GetAttributeAssignment("no-such-attribute") })
	}
	for _, b := range w.buses {
		b := b
		safe(func() { b.GetNodeInterfaceByNodeName("no such node") })
	}
	for _, m := range w.msgs {
		m := m
		safe(func() { m.GetSignalByName("no such signal") })
	}
	rep.counters["failing_preludes"]++
}

// sharedness: buses share at least one node, and some type / enum / attribute / builder is used
// from more than one bus.
func sharedness(w *world) bool {
	sharedNode := false
	for _, n := range w.nodes {
		seen := map[*acmelib.Bus]bool{}
		for _, ni := range n.Interfaces() {
			if b := ni.ParentBus(); b != nil {
				seen[b] = true
			}
		}
		if len(seen) > 1 {
			sharedNode = true
		}
	}
	sharedRef := false
	for _, ty := range w.types {
		if ty.ReferenceCount() > 1 {
			sharedRef = true
		}
	}
	return sharedNode && sharedRef
}

// ExportNetwork (one goroutine per bus inside the library) concurrently with reader goroutines,
// compared file by file with sequential ExportBus.
func exportNetworkRound(rep *report, w *world, t *opTable, r *rng, idx int, scratch string, roots []any) {
	dir := filepath.Join(scratch, fmt.Sprintf("export-%d-%d", runtime.GOMAXPROCS(0), idx))
	if err := os.MkdirAll(dir, 0o777); err != nil {
		rep.fail("harness-mkdir", err.Error())
		return
	}
	want := map[string]string{}
	for _, b := range w.net.Buses() {
		var buf bytes.Buffer
		acmelib.ExportBus(&buf, b)
		want[strings.ReplaceAll(strings.TrimSpace(b.Name()), " ", "_")+".dbc"] = buf.String()
	}
	h0, _ := snapshotHash(roots)
	var wg sync.WaitGroup
	start := make(chan struct{})
	readers := 4
	for g := 0; g < readers; g++ {
		gr := r.fork(uint64(1000 + g))
		ops := make([]roOp, 0, 30)
		for k := 0; k < 30; k++ {
			ops = append(ops, t.genOp(gr))
		}
		wg.Add(1)
		go func() {
			defer wg.Done()
			<-start
			for _, op := range ops {
				t.run(op)
			}
		}()
	}
	var expErr error
	var expPanic any
	wg.Add(1)
	go func() {
		defer wg.Done()
		defer func() { expPanic = recover() }()
		<-start
		expErr = acmelib.ExportNetwork(w.net, dir)
	}()
	close(start)
	wg.Wait()
	h1, _ := snapshotHash(roots)
	rep.counters["exportnetwork_rounds"]++
	if h1 != h0 {
		rep.fail("exportnetwork-snapshot-changed", fmt.Sprintf("model=%d: the shared model differs after ExportNetwork", idx))
	}
	if expPanic != nil {
		rep.fail("exportnetwork-panic", fmt.Sprintf("model=%d: %v", idx, expPanic))
		return
	}
	if expErr != nil {
		rep.fail("exportnetwork-error", fmt.Sprintf("model=%d: %v", idx, expErr))
		return
	}
	netDir := filepath.Join(dir, strings.ReplaceAll(strings.TrimSpace(w.net.Name()), " ", "_"))
	for name, exp := range want {
		data, err := os.ReadFile(filepath.Join(netDir, name))
		rep.counters["exportnetwork_files"]++
		if err != nil {
			rep.fail("exportnetwork-missing-file", fmt.Sprintf("model=%d file %s: %v", idx, name, err))
			continue
		}
		got := string(data)
		if got != exp && canonDBC(got) == canonDBC(exp) {
			rep.counters["dbc_value_table_order_only_differences(not-C18,D31)"]++
			continue
		}
		if got != exp {
			rep.fail("exportnetwork-differs-from-exportbus", fmt.Sprintf("model=%d file %s: ExportNetwork wrote %d bytes, sequential ExportBus %d bytes; first difference at byte %d",
				idx, name, len(got), len(exp), firstDiff(got, exp)))
		}
	}
	if idx == 0 {
		rep.samples = append(rep.samples, fmt.Sprintf("ExportNetwork model 0: %d files compared with sequential ExportBus under %d concurrent readers", len(want), readers))
	}
}

func firstDiff(a, b string) int {
	n := len(a)
	if len(b) < n {
		n = len(b)
	}
	for i := 0; i < n; i++ {
		if a[i] != b[i] {
			return i
		}
	}
	return n
}

// earlyReturnRound: ExportNetwork must not leave a worker running once it has returned.  The
// second bus of the network cannot get a file (its name contains a path separator), so
// ExportNetwork returns an error; the caller then owns the model again and edits the first bus.
// A worker that is still exporting the first bus races with that edit (the race detector sees
// it) or is observed finishing after the return.
func earlyReturnRound(rep *report, seed uint64, i int, scratch string) {
	net := acmelib.NewNetwork(fmt.Sprintf("early_%d", i))
	big := acmelib.NewBus("a_big")
	bad := acmelib.NewBus("zz/unwritable/name")
	net.AddBus(big)
	net.AddBus(bad)
	typ, _ := acmelib.NewIntegerSignalType("t8", 8, false)
	node := acmelib.NewNode("sender", 1, 1)
	big.AddNodeInterface(node.Interfaces()[0])
	var msgs []*acmelib.Message
	for m := 0; m < 120; m++ {
		msg := acmelib.NewMessage(fmt.Sprintf("m_%d", m), acmelib.MessageID(m+1), 8)
		for s := 0; s < 8; s++ {
			sig, _ := acmelib.NewStandardSignal(fmt.Sprintf("s_%d_%d", m, s), typ)
			msg.AppendSignal(sig)
		}
		msg.SetDesc("d")
		node.Interfaces()[0].AddSentMessage(msg)
		msgs = append(msgs, msg)
	}
	dir := filepath.Join(scratch, fmt.Sprintf("early-%d-%d", runtime.GOMAXPROCS(0), i))
	os.MkdirAll(dir, 0o777)
	var want bytes.Buffer
	acmelib.ExportBus(&want, big)
	err := acmelib.ExportNetwork(net, dir)
	rep.counters["earlyreturn_rounds"]++
	if err == nil {
		// the unwritable name was accepted: nothing to observe
		rep.counters["earlyreturn_no_error"]++
		return
	}
	// ExportNetwork has returned: the file of the bus whose worker was started must be complete,
	data, rerr := os.ReadFile(filepath.Join(dir, "early_"+strconv.Itoa(i), "a_big.dbc"))
	if rerr != nil || string(data) != want.String() {
		rep.fail("exportnetwork-returns-before-workers-finish",
			fmt.Sprintf("ExportNetwork returned (%v) while the worker of bus a_big was still running: its file had %d of %d bytes at return", err, len(data), want.Len()))
	}
	// and the caller owns the model again: these edits race with a worker that was left running
	for _, m := range msgs {
		m.SetDesc("edited after ExportNetwork returned")
	}
	node.UpdateName("renamed after return")
}
