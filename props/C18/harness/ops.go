package main

import (
	"bytes"
	"crypto/sha1"
	"encoding/hex"
	"errors"
	"fmt"
	"reflect"
	"regexp"
	"sort"
	"strings"
	"time"

	acmelib "github.com/squadracorsepolito/acmelib"
)

// Read-only operations are enumerated by reflection: EVERY exported method of every object of
// the model whose name does not start with a mutator verb, with generated arguments, plus the
// package-level functions the property names (ExportBus, ExportToMarkdown, SaveNetwork,
// CalculateBusLoad).  ExportNetwork has its own phase.

var mutatorPrefixes = []string{"Set", "Update", "Add", "Remove", "Insert", "Append", "Delete", "Assign",
	"Shift", "Compact", "Clear", "Use"}

func isMutator(name string) bool {
	for _, p := range mutatorPrefixes {
		if strings.HasPrefix(name, p) {
			return true
		}
	}
	return false
}

type receiver struct {
	label   string
	v       reflect.Value
	methods []int // indexes of callable read-only methods
}

type opTable struct {
	w      *world
	recvs  []receiver
	ids    []acmelib.EntityID
	names  []string
	byKind map[string]int
	labels []string         // distinct receiver classes, in first-seen order
	byLab  map[string][]int // receiver indexes per class
	cold   bool             // cold table: built without calling ANY library method
	idRecv []int            // cold: receivers that have an EntityID (resolved inside the goroutine)
	nmRecv []int            // cold: receivers that have a Name
}

var (
	entityIDType = reflect.TypeOf(acmelib.EntityID(""))
	errorType    = reflect.TypeOf((*error)(nil)).Elem()
	timeType     = reflect.TypeOf(time.Time{})
	byteSlice    = reflect.TypeOf([]byte(nil))
)

type entityLike interface {
	EntityID() acmelib.EntityID
}

func supportedParam(t reflect.Type) bool {
	if t == byteSlice {
		return true
	}
	switch t.Kind() {
	case reflect.String, reflect.Bool, reflect.Int, reflect.Int8, reflect.Int16, reflect.Int32, reflect.Int64,
		reflect.Uint, reflect.Uint8, reflect.Uint16, reflect.Uint32, reflect.Uint64, reflect.Float32, reflect.Float64:
		return true
	}
	return false
}

func (t *opTable) add(label string, x any) {
	if x == nil {
		return
	}
	v := reflect.ValueOf(x)
	if v.Kind() == reflect.Ptr && v.IsNil() {
		return
	}
	rc := receiver{label: label, v: v}
	ty := v.Type()
	for i := 0; i < ty.NumMethod(); i++ {
		m := ty.Method(i)
		if isMutator(m.Name) {
			continue
		}
		ok := true
		for a := 1; a < m.Type.NumIn(); a++ {
			if !supportedParam(m.Type.In(a)) || m.Type.IsVariadic() {
				ok = false
			}
		}
		if ok {
			rc.methods = append(rc.methods, i)
		}
	}
	if len(rc.methods) == 0 {
		return
	}
	if _, ok := t.byLab[label]; !ok {
		t.labels = append(t.labels, label)
	}
	t.byLab[label] = append(t.byLab[label], len(t.recvs))
	t.recvs = append(t.recvs, rc)
	t.byKind[ty.String()]++
	if e, ok := x.(entityLike); ok {
		if t.cold {
			t.idRecv = append(t.idRecv, len(t.recvs)-1)
		} else {
			t.ids = append(t.ids, e.EntityID())
		}
	}
	if n, ok := x.(interface{ Name() string }); ok {
		if t.cold {
			t.nmRecv = append(t.nmRecv, len(t.recvs)-1)
		} else {
			t.names = append(t.names, n.Name())
		}
	}
}

// newOpTableCold builds the table from the harness's own lists only: no getter, no lookup, no
// String of the library runs before the goroutines start (a first-use cache, per object or per
// process, is still cold).  Entity ids and names used as arguments are fetched inside the
// goroutine that uses them.
func newOpTableCold(w *world) *opTable {
	t := &opTable{w: w, byKind: map[string]int{}, byLab: map[string][]int{}, cold: true}
	t.add("net", w.net)
	for _, x := range w.buses {
		t.add("bus", x)
	}
	for _, x := range w.builders {
		t.add("builder", x)
	}
	for _, x := range w.nodes {
		t.add("node", x)
	}
	for _, x := range w.ifaces {
		t.add("iface", x)
	}
	for _, x := range w.msgs {
		t.add("msg", x)
	}
	for _, x := range w.sigs {
		t.add("sig", x)
	}
	for _, x := range w.detached {
		t.add("detached", x)
	}
	for _, x := range w.types {
		t.add("type", x)
	}
	for _, x := range w.units {
		t.add("unit", x)
	}
	for _, x := range w.enums {
		t.add("enum", x)
	}
	for _, x := range w.attrs {
		t.add("attr", x)
	}
	t.ids = []acmelib.EntityID{"missing-entity-id"}
	t.names = []string{"missing name", ""}
	return t
}

func newOpTable(w *world) *opTable {
	t := &opTable{w: w, byKind: map[string]int{}, byLab: map[string][]int{}}
	t.add("net", w.net)
	seenB := map[*acmelib.CANIDBuilder]bool{}
	addBuilder := func(b *acmelib.CANIDBuilder) {
		if b == nil || seenB[b] {
			return
		}
		seenB[b] = true
		t.add("builder", b)
		for _, op := range b.Operations() {
			t.add("builderop", op)
		}
	}
	for _, b := range w.buses {
		t.add("bus", b)
		addBuilder(b.CANIDBuilder())
		for _, aa := range b.AttributeAssignments() {
			t.add("attass", aa)
		}
	}
	for _, b := range w.builders {
		addBuilder(b)
	}
	for _, n := range w.nodes {
		t.add("node", n)
		for _, aa := range n.AttributeAssignments() {
			t.add("attass", aa)
		}
	}
	for _, ni := range w.ifaces {
		t.add("iface", ni)
	}
	for _, m := range w.msgs {
		t.add("msg", m)
		if l := m.SignalLayout(); l != nil {
			t.add("layout", l)
			for _, f := range l.Filters() {
				t.add("filter", f)
			}
			if !w.hasMux {
				func() {
					defer func() { recover() }()
					for _, d := range l.Decode(make([]byte, m.SizeByte())) {
						if d != nil {
							t.add("decoding", d)
						}
					}
				}()
			}
		}
		for _, aa := range m.AttributeAssignments() {
			t.add("attass", aa)
		}
	}
	for _, s := range w.sigs {
		t.add("sig", s)
	}
	for _, x := range w.detached {
		t.add("detached", x)
	}
	for _, x := range w.types {
		t.add("type", x)
	}
	for _, x := range w.units {
		t.add("unit", x)
	}
	for _, e := range w.enums {
		t.add("enum", e)
		for _, v := range e.Values() {
			t.add("enumval", v)
		}
	}
	for _, a := range w.attrs {
		t.add("attr", a)
	}
	t.ids = append(t.ids, "missing-entity-id")
	t.names = append(t.names, "missing name", "")
	return t
}

// ---------------------------------------------------------------- operations

type roOp struct {
	free   int // 0: method call; 1 ExportBus, 2 ExportToMarkdown, 3 SaveNetwork, 4 CalculateBusLoad
	recv   int
	method int
	args   []reflect.Value
	lazy   []int // cold tables: per argument, the receiver whose EntityID / Name is the argument (-1: args[i])
	desc   string
	class  string
}

func (t *opTable) genArg(r *rng, ty reflect.Type, rc *receiver) reflect.Value {
	if ty == byteSlice {
		b := make([]byte, 8) // never shorter than a payload (a short slice panics: C02's matter)
		for i := range b {
			b[i] = byte(r.next())
		}
		return reflect.ValueOf(b)
	}
	if ty == entityIDType {
		return reflect.ValueOf(t.ids[r.intn(len(t.ids))])
	}
	v := reflect.New(ty).Elem()
	switch ty.Kind() {
	case reflect.String:
		v.SetString(t.names[r.intn(len(t.names))])
	case reflect.Bool:
		v.SetBool(r.chance(50))
	case reflect.Int, reflect.Int8, reflect.Int16, reflect.Int32, reflect.Int64:
		v.SetInt(int64(r.intn(12)) - 2)
	case reflect.Uint, reflect.Uint8, reflect.Uint16, reflect.Uint32, reflect.Uint64:
		v.SetUint(uint64(r.intn(40)))
	case reflect.Float32, reflect.Float64:
		v.SetFloat(float64(r.intn(10)))
	}
	return v
}

func (t *opTable) genOp(r *rng) roOp {
	k := r.intn(100)
	switch {
	case k < 3:
		b := r.intn(len(t.w.buses))
		return roOp{free: 1, recv: b, desc: fmt.Sprintf("ExportBus(bus#%d)", b), class: "ExportBus"}
	case k < 5:
		return roOp{free: 2, desc: "ExportToMarkdown(net)", class: "ExportToMarkdown"}
	case k < 6:
		enc := 1 + r.intn(7)
		return roOp{free: 3, recv: enc, desc: fmt.Sprintf("SaveNetwork(net,enc=%d)", enc), class: "SaveNetwork"}
	case k < 8:
		// several encodings at once into writers that FAIL (always / after k bytes / on the nth call)
		enc := []int{3, 5, 6, 7, 7}[r.intn(5)]
		mode := r.intn(1 << 12)
		return roOp{free: 5, recv: enc, method: mode, desc: fmt.Sprintf("SaveNetwork(net,enc=%d,failing writers mode=%d)", enc, mode), class: "SaveNetworkFailingWriters"}
	case k < 9:
		// Markdown / DBC export into a writer that fails
		mode := r.intn(13)
		if r.chance(60) {
			return roOp{free: 6, method: mode, desc: fmt.Sprintf("ExportToMarkdown(net,failing writer mode=%d)", mode), class: "ExportToMarkdownFailingWriter"}
		}
		b := r.intn(len(t.w.buses))
		return roOp{free: 7, recv: b, method: mode, desc: fmt.Sprintf("ExportBus(bus#%d,failing writer mode=%d)", b, mode), class: "ExportBusFailingWriter"}
	case k < 12:
		b := r.intn(len(t.w.buses))
		dc := []int{-1, 0, 1, 8, 64, 1024}[r.intn(6)]
		return roOp{free: 4, recv: b, method: dc, desc: fmt.Sprintf("CalculateBusLoad(bus#%d,%d)", b, dc), class: "CalculateBusLoad"}
	}
	// class first, then an object of that class: the few networks / buses are exercised as often
	// as the many filters / signals
	lab := t.byLab[t.labels[r.intn(len(t.labels))]]
	ri := lab[r.intn(len(lab))]
	rc := &t.recvs[ri]
	mi := rc.methods[r.intn(len(rc.methods))]
	m := rc.v.Type().Method(mi)
	op := roOp{recv: ri, method: mi, class: m.Name}
	var as []string
	for a := 1; a < m.Type.NumIn(); a++ {
		pt := m.Type.In(a)
		v := t.genArg(r, pt, rc)
		lz := -1
		if t.cold && pt == entityIDType && len(t.idRecv) > 0 && r.chance(70) {
			lz = t.idRecv[r.intn(len(t.idRecv))]
		} else if t.cold && pt.Kind() == reflect.String && pt != entityIDType && len(t.nmRecv) > 0 && r.chance(60) {
			lz = t.nmRecv[r.intn(len(t.nmRecv))]
		}
		op.args = append(op.args, v)
		if t.cold {
			op.lazy = append(op.lazy, lz)
		}
		if lz >= 0 {
			as = append(as, fmt.Sprintf("<id/name of #%d>", lz))
		} else {
			as = append(as, fmt.Sprintf("%v", v.Interface()))
		}
	}
	op.desc = fmt.Sprintf("%s#%d(%s).%s(%s)", rc.label, ri, rc.v.Type().String(), m.Name, strings.Join(as, ","))
	return op
}

var addrRe = regexp.MustCompile(`0x[0-9a-f]+`)

// run executes one read-only operation and returns the canonical rendering of its result.
// A panic is a result like any other ("PANIC:..."): whether it is C18's business is decided by
// comparing the concurrent with the sequential run (a panic that also happens sequentially is
// another property's defect: D32 / C16, D19 / C04).
func (t *opTable) run(op roOp) (res string) {
	defer func() {
		if r := recover(); r != nil {
			res = "PANIC:" + addrRe.ReplaceAllString(fmt.Sprint(r), "0x?")
		}
	}()
	switch op.free {
	case 1:
		var buf bytes.Buffer
		acmelib.ExportBus(&buf, t.w.buses[op.recv])
		return shorten(buf.String()) + canonSep + shorten(canonDBC(buf.String()))
	case 2:
		var buf bytes.Buffer
		err := acmelib.ExportToMarkdown(t.w.net, &buf)
		return shorten(buf.String()) + "|" + errSig(err)
	case 3:
		var b1, b2, b3 bytes.Buffer
		err := acmelib.SaveNetwork(t.w.net, acmelib.SaveEncoding(op.recv), &b1, &b2, &b3)
		return shorten(b1.String()) + "|" + shorten(b2.String()) + "|" + shorten(b3.String()) + "|" + errSig(err)
	case 5:
		ws := make([]*failWriter, 3)
		for i := range ws {
			ws[i] = newFailWriter(i, (op.method>>(4*uint(i)))&15)
		}
		err := acmelib.SaveNetwork(t.w.net, acmelib.SaveEncoding(op.recv), ws[0], ws[1], ws[2])
		msg := "ok"
		if err != nil {
			msg = "ERR(" + err.Error() + ")"
		}
		return fmt.Sprintf("%s|%d,%d,%d", msg, ws[0].n, ws[1].n, ws[2].n)
	case 6:
		fw := newFailWriter(0, op.method)
		err := acmelib.ExportToMarkdown(t.w.net, fw)
		msg := "ok"
		if err != nil {
			msg = "ERR"
		}
		return fmt.Sprintf("%s|%d", msg, fw.n)
	case 7:
		// the DBC writer panics on a failing writer (recovered by this runner, also sequentially)
		fw := newFailWriter(0, op.method)
		acmelib.ExportBus(fw, t.w.buses[op.recv])
		return fmt.Sprintf("ok|%d", fw.n)
	case 4:
		pct, loads, err := acmelib.CalculateBusLoad(t.w.buses[op.recv], op.method)
		var ls []string
		for _, l := range loads {
			ls = append(ls, fmt.Sprintf("%s:%v:%v", l.Message.EntityID(), l.BitsPerSec, l.Percentage))
		}
		sort.Strings(ls) // the order among (nearly) equal loads is C17's matter (D33)
		return fmt.Sprintf("%v|%s|%s", pct, strings.Join(ls, ","), errSig(err))
	}
	rc := &t.recvs[op.recv]
	args := op.args
	if op.lazy != nil {
		args = append([]reflect.Value(nil), op.args...)
		for i, lz := range op.lazy {
			if lz < 0 {
				continue
			}
			x := t.recvs[lz].v.Interface()
			if args[i].Type() == entityIDType {
				args[i] = reflect.ValueOf(x.(entityLike).EntityID())
			} else {
				args[i] = reflect.ValueOf(x.(interface{ Name() string }).Name()).Convert(args[i].Type())
			}
		}
	}
	outs := rc.v.Method(op.method).Call(args)
	name := op.class
	if name == "String" && len(outs) == 1 && outs[0].Kind() == reflect.String {
		// attribute references are listed in map order (String is not an export): compare the
		// multiset of lines
		lines := strings.Split(outs[0].String(), "\n")
		sort.Strings(lines)
		return shorten(strings.Join(lines, "\n"))
	}
	var parts []string
	for _, o := range outs {
		parts = append(parts, render(o, 0, name))
	}
	return shorten(strings.Join(parts, "|"))
}

// failWriter fails always (mode 0..4), after a number of bytes (5..9), on its nth call (10..12),
// or never (13..15); it counts the bytes it accepted.
type failWriter struct {
	who, mode, n, calls int
}

func newFailWriter(who, mode int) *failWriter { return &failWriter{who: who, mode: mode} }

func (f *failWriter) Write(p []byte) (int, error) {
	f.calls++
	fail := fmt.Errorf("writer %d failed", f.who)
	switch {
	case f.mode <= 4:
		return 0, fail
	case f.mode <= 9:
		limit := (f.mode - 4) * 40
		if f.n+len(p) > limit {
			k := limit - f.n
			if k < 0 {
				k = 0
			}
			f.n += k
			return k, fail
		}
	case f.mode <= 12:
		if f.calls >= f.mode-9 {
			return 0, fail
		}
	}
	f.n += len(p)
	return len(p), nil
}

const canonSep = "||canon:"

// sameResult: equal, or equal up to the order of a run of VAL_TABLE_ lines (map order in the DBC
// exporter, D31 / C15: already different between two sequential runs, so not a concurrency effect;
// counted, never hidden).
func sameResult(rep *report, a, b string) bool {
	if a == b {
		return true
	}
	i, j := strings.Index(a, canonSep), strings.Index(b, canonSep)
	if i >= 0 && j >= 0 && a[i:] == b[j:] {
		rep.counters["dbc_value_table_order_only_differences(not-C18,D31)"]++
		return true
	}
	return false
}

func shorten(s string) string {
	if len(s) <= 160 {
		return s
	}
	h := sha1.Sum([]byte(s))
	return fmt.Sprintf("%s...[len=%d sha1=%s]", s[:60], len(s), hex.EncodeToString(h[:8]))
}

// canonDBC sorts runs of consecutive VAL_TABLE_ lines: the DBC exporter emits them in map order
// (D31, owned by C15), so two SEQUENTIAL runs already differ there.
func canonDBC(s string) string {
	lines := strings.Split(s, "\n")
	i := 0
	for i < len(lines) {
		if strings.HasPrefix(lines[i], "VAL_TABLE_") {
			j := i
			for j < len(lines) && strings.HasPrefix(lines[j], "VAL_TABLE_") {
				j++
			}
			sort.Strings(lines[i:j])
			i = j
		} else {
			i++
		}
	}
	return strings.Join(lines, "\n")
}

var sentinels = []struct {
	n string
	e error
}{{"dup", acmelib.ErrIsDuplicated}, {"notfound", acmelib.ErrNotFound}, {"neg", acmelib.ErrIsNegative},
	{"oob", acmelib.ErrOutOfBounds}, {"zero", acmelib.ErrIsZero}, {"nil", acmelib.ErrIsNil},
	{"nospace", acmelib.ErrNoSpaceLeft}, {"intersect", acmelib.ErrIntersect}, {"invtype", acmelib.ErrInvalidType},
	{"recvsender", acmelib.ErrReceiverIsSender}, {"small", acmelib.ErrTooSmall}, {"big", acmelib.ErrTooBig}}

func errSig(err error) string {
	if err == nil {
		return "ok"
	}
	var ss []string
	for _, s := range sentinels {
		if errors.Is(err, s.e) {
			ss = append(ss, s.n)
		}
	}
	return "ERR(" + reflect.TypeOf(err).String() + ":" + strings.Join(ss, "+") + ")"
}

var unorderedResult = map[string]bool{"SignalNames": true, "References": true}

func render(v reflect.Value, depth int, method string) string {
	if !v.IsValid() {
		return "<invalid>"
	}
	if v.Type().Implements(errorType) {
		if (v.Kind() == reflect.Interface || v.Kind() == reflect.Ptr) && v.IsNil() {
			return "ok"
		}
		return errSig(v.Interface().(error))
	}
	if v.Kind() == reflect.Interface {
		if v.IsNil() {
			return "nil"
		}
		return render(v.Elem(), depth, method)
	}
	if v.Type() == timeType {
		return "T"
	}
	if v.Kind() == reflect.Ptr {
		if v.IsNil() {
			return "nil"
		}
		if method == "Clone" {
			return "CLONE:" + v.Type().String()
		}
		if v.CanInterface() {
			if e, ok := v.Interface().(entityLike); ok {
				return "E:" + string(e.EntityID())
			}
		}
		el := v.Elem()
		if el.Kind() != reflect.Struct || depth > 2 {
			return "&" + v.Type().Elem().String()
		}
		var fs []string
		for i := 0; i < el.NumField(); i++ {
			if el.Type().Field(i).IsExported() {
				fs = append(fs, el.Type().Field(i).Name+":"+render(el.Field(i), depth+1, method))
			}
		}
		return "&" + el.Type().String() + "{" + strings.Join(fs, " ") + "}"
	}
	if s, ok := scalarString(v); ok {
		return s
	}
	switch v.Kind() {
	case reflect.Slice, reflect.Array:
		var es []string
		for i := 0; i < v.Len(); i++ {
			es = append(es, render(v.Index(i), depth+1, method))
		}
		if unorderedResult[method] && depth == 0 {
			sort.Strings(es)
		}
		return "[" + strings.Join(es, " ") + "]"
	case reflect.Map:
		var es []string
		it := v.MapRange()
		for it.Next() {
			es = append(es, render(it.Key(), depth+1, method)+"=>"+render(it.Value(), depth+1, method))
		}
		sort.Strings(es)
		return "map[" + strings.Join(es, " ") + "]"
	case reflect.Struct:
		var fs []string
		for i := 0; i < v.NumField(); i++ {
			if v.Type().Field(i).IsExported() {
				fs = append(fs, v.Type().Field(i).Name+":"+render(v.Field(i), depth+1, method))
			}
		}
		return v.Type().String() + "{" + strings.Join(fs, " ") + "}"
	}
	return "?" + v.Kind().String()
}
