package main

// SplitMix64: every random choice of the harness derives from VERIF_SEED.
type rng struct{ s uint64 }

func newRng(seed uint64) *rng { return &rng{s: seed} }

func (r *rng) next() uint64 {
	r.s += 0x9E3779B97F4A7C15
	z := r.s
	z = (z ^ (z >> 30)) * 0xBF58476D1CE4E5B9
	z = (z ^ (z >> 27)) * 0x94D049BB133111EB
	return z ^ (z >> 31)
}

func (r *rng) intn(n int) int {
	if n <= 0 {
		return 0
	}
	return int(r.next() % uint64(n))
}

func (r *rng) chance(pct int) bool { return r.intn(100) < pct }

func (r *rng) fork(tag uint64) *rng { return newRng(r.next() ^ (tag * 0xD6E8FEB86659FD93)) }
