package main

// Family "rx-buffer" (race phase): decoding is a read-only operation of its ARGUMENT too.
//
// Frames are received back to back into ONE buffer; every payload is a sub-slice of it (with spare
// capacity: the bytes behind it belong to the next frame) and is decoded by its own goroutines.  A
// payload may be shorter than the message (DLC < size) exactly when no filter of the layout names a
// byte behind it - the needed length is computed from Filters(), so the unchanged library never
// indexes past a payload (short slices that DO cut a signal are C02's matter, not generated here).
// Oracles: (1) the buffer is byte-identical after the decodings (sequential in-place pass and
// concurrent round), (2) every concurrent result equals the result of decoding a private copy
// (cap == len) of the same payload, (3) the race detector (a write into the buffer conflicts with the
// neighbour's read).

import (
	"bytes"
	"fmt"
	"strings"
	"sync"

	acmelib "github.com/squadracorsepolito/acmelib"
)

type rxLayout struct {
	name   string
	layout *acmelib.SignalLayout
	size   int // message size in bytes
	needed int // 1 + highest byte index named by a filter
}

func rxNeeded(l *acmelib.SignalLayout) (n int, ok bool) {
	defer func() {
		if recover() != nil {
			ok = false
		}
	}()
	fs := l.Filters()
	for _, f := range fs {
		if f.ByteIndex()+1 > n {
			n = f.ByteIndex() + 1
		}
	}
	return n, len(fs) > 0
}

// messages whose signals live in a leading part of the payload only (sizes, signal widths, byte
// order and the length of the occupied prefix are drawn from the seed)
func rxPrefixMessages(r *rng, idx, count int) []*acmelib.Message {
	var res []*acmelib.Message
	for i := 0; i < count; i++ {
		size := 2 + r.intn(7)
		prefixBits := 1 + r.intn(size*8-8)
		m := acmelib.NewMessage(fmt.Sprintf("rx_%d_%d", idx, i), acmelib.MessageID(0x300+i), size)
		used := 0
		for k := 0; used < prefixBits && k < 24; k++ {
			width := 1 + r.intn(16)
			if used+width > prefixBits {
				width = prefixBits - used
			}
			typ, err := acmelib.NewIntegerSignalType(fmt.Sprintf("rx_t_%d_%d_%d", idx, i, k), width, r.chance(30))
			if err != nil {
				break
			}
			sig, err := acmelib.NewStandardSignal(fmt.Sprintf("rx_s_%d_%d_%d", idx, i, k), typ)
			if err != nil {
				break
			}
			if err := m.AppendSignal(sig); err != nil {
				break
			}
			used += width
		}
		if r.chance(30) {
			func() {
				defer func() { recover() }()
				m.SetByteOrder(acmelib.MessageByteOrderBigEndian)
			}()
		}
		res = append(res, m)
	}
	return res
}

func rxDecode(l *acmelib.SignalLayout, data []byte) (res string) {
	defer func() {
		if r := recover(); r != nil {
			res = "PANIC:" + addrRe.ReplaceAllString(fmt.Sprint(r), "0x?")
		}
	}()
	var b strings.Builder
	for _, d := range l.Decode(data) {
		if d == nil {
			b.WriteString("nil;")
			continue
		}
		fmt.Fprintf(&b, "%s raw=%d type=%v value=%v unit=%q;", d.Signal.Name(), d.RawValue, d.ValueType, d.Value, d.Unit)
	}
	return b.String()
}

type rxFrame struct {
	lay      *rxLayout
	off, len int
	capped   bool // three-index slice: cap == len
}

func (f rxFrame) slice(buf []byte) []byte {
	if f.capped {
		return buf[f.off : f.off+f.len : f.off+f.len]
	}
	return buf[f.off : f.off+f.len]
}

func rxBufferRounds(rep *report, w *world, r *rng, idx, rounds int) {
	var lays []*rxLayout
	add := func(m *acmelib.Message) {
		l := m.SignalLayout()
		if l == nil {
			return
		}
		n, ok := rxNeeded(l)
		if !ok || n > m.SizeByte() {
			return
		}
		lays = append(lays, &rxLayout{name: m.Name(), layout: l, size: m.SizeByte(), needed: n})
	}
	for _, m := range w.msgs {
		add(m)
	}
	for _, m := range rxPrefixMessages(r, idx, 4) {
		add(m)
	}
	if len(lays) == 0 {
		return
	}
	for round := 0; round < rounds; round++ {
		nf := 2 + r.intn(5)
		var frames []rxFrame
		off := 0
		short, spare := 0, 0
		for i := 0; i < nf; i++ {
			lay := lays[r.intn(len(lays))]
			n := lay.size
			if lay.needed < lay.size {
				if r.chance(50) {
					n = lay.needed
				} else {
					n = lay.needed + r.intn(lay.size-lay.needed+1)
				}
			}
			f := rxFrame{lay: lay, off: off, len: n, capped: r.chance(15)}
			if n < lay.size {
				short++
			}
			if !f.capped {
				spare++
			}
			frames = append(frames, f)
			off += n
		}
		original := make([]byte, off+2) // two guard bytes behind the last frame
		for i := range original {
			original[i] = byte(r.next()) | 1 // never zero: a zero written into the buffer always shows
		}
		// reference: private copies (cap == len) of every payload
		want := make([]string, nf)
		for i, f := range frames {
			want[i] = rxDecode(f.lay.layout, bytes.Clone(original[f.off:f.off+f.len]))
		}
		describe := func(i int) string {
			f := frames[i]
			return fmt.Sprintf("model=%d round=%d frame %d/%d: message %s size=%dB, bytes named by its filters=%d, payload=buf[%d:%d] (len %d, cap %s) of a %d-byte receive buffer",
				idx, round, i, nf, f.lay.name, f.lay.size, f.lay.needed, f.off, f.off+f.len, f.len, map[bool]string{true: "== len", false: "to the end of the buffer"}[f.capped], len(original))
		}
		kind := func(i int) string {
			f := frames[i]
			k := "full-payload"
			if f.len < f.lay.size {
				k = "short-payload"
			}
			if f.capped {
				return k + ",cap==len"
			}
			return k + ",spare-cap"
		}
		// (1) sequential, in place, one frame after the other
		buf := bytes.Clone(original)
		for i, f := range frames {
			got := rxDecode(f.lay.layout, f.slice(buf))
			if !bytes.Equal(buf, original) {
				rep.fail("payload-written:SignalLayout.Decode("+kind(i)+")",
					fmt.Sprintf("%s: Decode WROTE to the caller's buffer: % x, before % x", describe(i), buf, original))
				copy(buf, original)
			}
			if got != want[i] && !strings.HasPrefix(want[i], "PANIC:") {
				rep.fail("shared-buffer-result:SignalLayout.Decode("+kind(i)+")",
					fmt.Sprintf("%s: decoded in the buffer %q, decoded from a private copy %q", describe(i), got, want[i]))
			}
		}
		// (2) concurrent: two goroutines per frame
		const per = 2
		got := make([]string, nf*per)
		start := make(chan struct{})
		var wg sync.WaitGroup
		for g := 0; g < nf*per; g++ {
			wg.Add(1)
			go func(g int) {
				defer wg.Done()
				f := frames[g%nf]
				<-start
				got[g] = rxDecode(f.lay.layout, f.slice(buf))
			}(g)
		}
		close(start)
		wg.Wait()
		if !bytes.Equal(buf, original) {
			rep.fail("payload-written:SignalLayout.Decode(concurrent)",
				fmt.Sprintf("model=%d round=%d: %d frames decoded concurrently in one receive buffer; buffer after % x, before % x", idx, round, nf, buf, original))
		}
		for g := range got {
			i := g % nf
			if got[g] != want[i] {
				if strings.HasPrefix(want[i], "PANIC:") && strings.HasPrefix(got[g], "PANIC:") {
					continue
				}
				rep.fail("concurrent-result:SignalLayout.Decode(shared-rx-buffer)",
					fmt.Sprintf("%s: concurrent %q, sequential (private copy) %q", describe(i), got[g], want[i]))
			}
		}
		rep.counters["rxbuf_rounds"]++
		rep.counters["rxbuf_decodes"] += nf * (per + 2)
		rep.counters["race_ops"] += nf * (per + 2)
		rep.counters["rxbuf_short_payloads"] += short
		rep.counters["rxbuf_spare_cap_payloads"] += spare
		if short > 0 && spare > 0 {
			rep.counters["rxbuf_rounds_nontrivial"]++
		}
		rep.hist[fmt.Sprintf("rxbuf_frames=%d", nf)]++
		if idx == 0 && round == 0 {
			rep.samples = append(rep.samples, "rx-buffer "+describe(0)+" -> "+shorten(want[0]))
		}
	}
}
