package main

import (
	"fmt"
	"reflect"
	"sort"
	"strconv"
	"strings"
	"time"
)

// Deep snapshot of an object graph by reflection: every field (exported or not) of every object
// reachable from the roots, pointers numbered in traversal order (so aliasing is part of the
// snapshot), maps in sorted key order, slices WITH their spare capacity (an append in place or
// an in-place sort of a shared backing array changes the snapshot even when len is unchanged).
// Two modes: hashing (fast path) and lines (path = value, used to name the field that changed).

type visitKey struct {
	p uintptr
	t reflect.Type
}

type snapper struct {
	seen  map[visitKey]int
	lines []string
	keep  bool
	h     uint64
	count int
}

var locType = reflect.TypeOf(time.Location{})

func newSnapper(keep bool) *snapper {
	return &snapper{seen: make(map[visitKey]int), keep: keep, h: 1469598103934665603}
}

func (s *snapper) emit(path, val string) {
	s.count++
	for i := 0; i < len(val); i++ {
		s.h ^= uint64(val[i])
		s.h *= 1099511628211
	}
	s.h ^= 0xff
	s.h *= 1099511628211
	if s.keep {
		s.lines = append(s.lines, path+" = "+val)
	}
}

func (s *snapper) sub(path, seg string) string {
	if !s.keep {
		return ""
	}
	return path + seg
}

func scalarString(v reflect.Value) (string, bool) {
	switch v.Kind() {
	case reflect.Bool:
		if v.Bool() {
			return "true", true
		}
		return "false", true
	case reflect.Int, reflect.Int8, reflect.Int16, reflect.Int32, reflect.Int64:
		return strconv.FormatInt(v.Int(), 10), true
	case reflect.Uint, reflect.Uint8, reflect.Uint16, reflect.Uint32, reflect.Uint64, reflect.Uintptr:
		return strconv.FormatUint(v.Uint(), 10), true
	case reflect.Float32, reflect.Float64:
		return strconv.FormatFloat(v.Float(), 'g', -1, 64), true
	case reflect.Complex64, reflect.Complex128:
		return fmt.Sprint(v.Complex()), true
	case reflect.String:
		return strconv.Quote(v.String()), true
	}
	return "", false
}

func (s *snapper) ref(v reflect.Value, path, tag string) bool {
	k := visitKey{v.Pointer(), v.Type()}
	if id, ok := s.seen[k]; ok {
		s.emit(path, tag+"->#"+strconv.Itoa(id))
		return false
	}
	id := len(s.seen)
	s.seen[k] = id
	s.emit(path, tag+"#"+strconv.Itoa(id))
	return true
}

func (s *snapper) walk(v reflect.Value, path string) {
	if str, ok := scalarString(v); ok {
		s.emit(path, str)
		return
	}
	switch v.Kind() {
	case reflect.Ptr:
		if v.IsNil() {
			s.emit(path, "nil")
			return
		}
		if v.Type().Elem() == locType {
			s.emit(path, "*time.Location")
			return
		}
		if s.ref(v, path, "&") {
			s.walk(v.Elem(), s.sub(path, "*"))
		}
	case reflect.Interface:
		if v.IsNil() {
			s.emit(path, "nil-iface")
			return
		}
		s.emit(path, "iface:"+v.Elem().Type().String())
		s.walk(v.Elem(), path)
	case reflect.Struct:
		t := v.Type()
		for i := 0; i < v.NumField(); i++ {
			s.walk(v.Field(i), s.sub(path, "."+t.Name()+":"+t.Field(i).Name))
		}
	case reflect.Slice:
		if v.IsNil() {
			s.emit(path, "nil-slice")
			return
		}
		s.emit(s.sub(path, ".len"), strconv.Itoa(v.Len()))
		s.emit(s.sub(path, ".cap"), strconv.Itoa(v.Cap()))
		if v.Cap() == 0 {
			return
		}
		if s.ref(v, path, "[]") {
			full := v.Slice(0, v.Cap())
			for i := 0; i < full.Len(); i++ {
				s.walk(full.Index(i), s.sub(path, "["+strconv.Itoa(i)+"]"))
			}
		}
	case reflect.Array:
		for i := 0; i < v.Len(); i++ {
			s.walk(v.Index(i), s.sub(path, "["+strconv.Itoa(i)+"]"))
		}
	case reflect.Map:
		if v.IsNil() {
			s.emit(path, "nil-map")
			return
		}
		if !s.ref(v, path, "map") {
			return
		}
		s.emit(s.sub(path, ".len"), strconv.Itoa(v.Len()))
		type kv struct {
			k string
			v reflect.Value
		}
		kvs := make([]kv, 0, v.Len())
		it := v.MapRange()
		for it.Next() {
			ks, ok := scalarString(it.Key())
			if !ok {
				ks = fmt.Sprintf("%v", it.Key().Kind())
			}
			kvs = append(kvs, kv{ks, it.Value()})
		}
		sort.Slice(kvs, func(i, j int) bool { return kvs[i].k < kvs[j].k })
		for _, e := range kvs {
			s.emit(s.sub(path, "{key}"), e.k)
			s.walk(e.v, s.sub(path, "{"+e.k+"}"))
		}
	case reflect.Func, reflect.Chan, reflect.UnsafePointer:
		if v.IsNil() {
			s.emit(path, "nil-"+v.Kind().String())
		} else {
			s.emit(path, v.Kind().String())
		}
	default:
		s.emit(path, "?"+v.Kind().String())
	}
}

func (s *snapper) walkRoots(roots []any) {
	for i, r := range roots {
		if g, ok := r.(globalRoot); ok {
			// package-level variable of the library: snapshotted under its name
			s.walk(reflect.ValueOf(g.Ptr), s.sub("", "global("+g.Name+")"))
			continue
		}
		s.walk(reflect.ValueOf(r), s.sub("", "root"+strconv.Itoa(i)))
	}
}

func snapshotHash(roots []any) (uint64, int) {
	s := newSnapper(false)
	s.walkRoots(roots)
	return s.h, s.count
}

// globalHashes hashes every package-level variable separately: a write to process-global state
// happens once per process (first use), so it cannot be reproduced on a rebuilt model; the
// variable is then named by comparing these hashes.
func globalHashes(roots []any) map[string]uint64 {
	res := map[string]uint64{}
	for _, r := range roots {
		if g, ok := r.(globalRoot); ok {
			s := newSnapper(false)
			s.walk(reflect.ValueOf(g.Ptr), "")
			res[g.Name] = s.h
		}
	}
	return res
}

func snapshotLines(roots []any) []string {
	s := newSnapper(true)
	s.walkRoots(roots)
	return s.lines
}

// diffLines names the first few fields that differ between two line snapshots.
func diffLines(a, b []string) string {
	var out []string
	n := len(a)
	if len(b) < n {
		n = len(b)
	}
	for i := 0; i < n && len(out) < 4; i++ {
		if a[i] != b[i] {
			out = append(out, fmt.Sprintf("before{%s} after{%s}", a[i], b[i]))
		}
	}
	if len(a) != len(b) {
		out = append(out, fmt.Sprintf("snapshot length %d -> %d", len(a), len(b)))
	}
	return strings.Join(out, " ;; ")
}

// changedField names the first differing field as "StructType.field" (the signature of a
// write on a read path is the field written, whatever operation triggered it).
func changedField(a, b []string) string {
	n := len(a)
	if len(b) < n {
		n = len(b)
	}
	for i := 0; i < n; i++ {
		if a[i] != b[i] {
			p := a[i]
			if j := strings.Index(p, " = "); j >= 0 {
				p = p[:j]
			}
			last := ""
			for _, sg := range strings.FieldsFunc(p, func(r rune) bool { return r == '.' || r == '*' }) {
				if k := strings.IndexAny(sg, "[{"); k >= 0 {
					sg = sg[:k]
				}
				if strings.Contains(sg, ":") {
					last = sg
				}
			}
			if last == "" {
				if strings.HasPrefix(p, "global(") {
					if k := strings.Index(p, ")"); k > 0 {
						return p[:k+1] // a package-level variable itself (slice / map grown in place)
					}
				}
				return "root"
			}
			return strings.Replace(last, ":", ".", 1)
		}
	}
	return "shape"
}
