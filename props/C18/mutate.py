#!/usr/bin/env python3
"""Mutation self-test for C18 (development aid, not a registered command).
Each mutant makes a READ path write shared state (or makes the ExportNetwork workers share
unsynchronised state) without changing any sequential result, is applied to a scratch worktree of
/repo (never to /repo), must still pass `go test ./...`, and must make
`VERIF_REPO=<worktree> ./check C18 --tier quick` report a VIOLATION.
usage: mutate.py <worktree> [names...]   (git -C /repo worktree add -b fix-C18 /tmp/wt/C18 main)"""
import os, subprocess, sys, time

MUTANTS = [
    # GetCANID memoises its result in the message
    ("getcanid-memoised", [("message.go", "\tcycleTime      int\n\tsendType       MessageSendType", "\tcanIDCache     CANID\n\tcanIDCached    bool\n\tcycleTime      int\n\tsendType       MessageSendType"),
                           ("message.go", "\treturn nodeInt.parentBus.canIDBuilder.Calculate(m.priority, m.id, nodeInt.node.id)\n}",
                            "\tif !m.canIDCached {\n\t\tm.canIDCache = nodeInt.parentBus.canIDBuilder.Calculate(m.priority, m.id, nodeInt.node.id)\n\t\tm.canIDCached = true\n\t}\n\treturn m.canIDCache\n}")]),
    # a getter sorts the shared slice "in place": sorts a copy and copies it back (same order: same-value writes)
    ("signals-getter-sorts-in-place", [("message.go", "func (m *Message) Signals() []Signal {\n\treturn m.signalLayout.signals\n}",
                                        "func (m *Message) Signals() []Signal {\n\ttmp := slices.Clone(m.signalLayout.signals)\n\tslices.SortFunc(tmp, func(a, b Signal) int { return a.GetStartBit() - b.GetStartBit() })\n\tcopy(m.signalLayout.signals, tmp)\n\treturn m.signalLayout.signals\n}")]),
    # a getter really sorts the shared slice in place, by another key (order changes)
    ("signals-getter-sorts-by-name-in-place", [("message.go", "func (m *Message) Signals() []Signal {\n\treturn m.signalLayout.signals\n}",
                                                "func (m *Message) Signals() []Signal {\n\tslices.SortFunc(m.signalLayout.signals, func(a, b Signal) int { return strings.Compare(b.Name(), a.Name()) })\n\treturn m.signalLayout.signals\n}")]),
    # a sorted getter sorts the node's own interface slice by descending number and back (net effect nil)
    ("interfaces-getter-reverses-twice", [("node.go", "func (n *Node) Interfaces() []*NodeInterface {\n\treturn n.interfaces\n}",
                                           "func (n *Node) Interfaces() []*NodeInterface {\n\tfor k := 0; k < 2; k++ {\n\t\tfor i, j := 0, len(n.interfaces)-1; i < j; i, j = i+1, j-1 {\n\t\t\tn.interfaces[i], n.interfaces[j] = n.interfaces[j], n.interfaces[i]\n\t\t}\n\t}\n\treturn n.interfaces\n}")]),
    # the hint clear in Node.errorf becomes unconditional (same value written on every read-path error)
    ("node-errorf-unconditional-hint-write", [("node.go", "\tif len(n.interfaces) > 0 {\n\t\tif n.intErrNum >= 0 {", "\tn.intErrNum = -1 + 0*len(n.name)\n\tif len(n.interfaces) > 0 {\n\t\tif n.intErrNum >= 0 {")]),
    # the hint clear in SignalEnum.errorf becomes unconditional
    ("enum-errorf-unconditional-hint-write", [("signal_enum.go", "\tif se.refs.size() > 0 {\n\t\tif se.parErrID != \"\" {", "\tif se.parErrID == \"\" {\n\t\tse.parErrID = \"\"\n\t}\n\tif se.refs.size() > 0 {\n\t\tif se.parErrID != \"\" {")]),
    # a failing lookup LEAVES the hint set (I11 broken): the next read-path error clears it = write on a read path
    ("rename-leaves-hint-set", [("node.go", "\t\t\tnodeInt := n.interfaces[n.intErrNum]\n\t\t\tn.intErrNum = -1\n", "\t\t\tnodeInt := n.interfaces[n.intErrNum]\n")]),
    # the mutator forgets the errorf that clears the hint: the NEXT failing lookup (a read path) clears it
    ("rename-skips-errorf", [("node.go", "\t\t\tn.intErrNum = tmpInt.number\n\t\t\treturn n.errorf(&UpdateNameError{Err: err})", "\t\t\tn.intErrNum = tmpInt.number\n\t\t\treturn &UpdateNameError{Err: err}")]),
    # boundary mutants of the anchored hint protocol
    ("errorf-hint-test-off-by-one", [("node.go", "\t\tif n.intErrNum >= 0 {", "\t\tif n.intErrNum > 0 {")]),
    ("enum-hint-set-only-for-message-parent", [("signal_enum.go", "\t\t\t\tif err := tmpSig.parentMuxSig.verifySignalSizeAmount(tmpSig.entityID, newSize-prevSize); err != nil {\n\t\t\t\t\tse.parErrID = tmpSig.entityID", "\t\t\t\tif err := tmpSig.parentMuxSig.verifySignalSizeAmount(tmpSig.entityID, newSize-prevSize); err != nil {\n\t\t\t\t\tse.parErrID = \"\"")]),
    ("enum-verify-skips-hint", [("signal_enum.go", "\t\t\t\tif err := tmpSig.parentMsg.verifySignalSizeAmount(tmpSig.entityID, newSize-prevSize); err != nil {\n\t\t\t\t\tse.parErrID = tmpSig.entityID", "\t\t\t\tif err := tmpSig.parentMsg.verifySignalSizeAmount(tmpSig.entityID, newSize-prevSize); err != nil {")]),
    ("sentmessages-sorted-descending", [("node_iterface.go", "\tmsgSlice := ni.sentMessages.getValues()\n\tslices.SortFunc(msgSlice, compareMessages)", "\tmsgSlice := ni.sentMessages.getValues()\n\tslices.SortFunc(msgSlice, func(a, b *Message) int { return compareMessages(b, a) })")]),
    # ExportNetwork workers append to a shared slice without a mutex
    ("export-workers-share-slice", [("exporter.go", "func exportBusAsync(w io.Writer, bus *Bus, wg *sync.WaitGroup) {\n\tdefer wg.Done()\n",
                                     "var exportedBusNames []string\n\nfunc exportBusAsync(w io.Writer, bus *Bus, wg *sync.WaitGroup) {\n\tdefer wg.Done()\n\texportedBusNames = append(exportedBusNames[:0], bus.name)\n")]),
    # ExportNetwork workers share ONE exporter (attribute name maps written concurrently)
    ("export-workers-count-in-network", [("exporter.go", "func exportBusAsync(w io.Writer, bus *Bus, wg *sync.WaitGroup) {\n\tdefer wg.Done()\n",
                                          "func exportBusAsync(w io.Writer, bus *Bus, wg *sync.WaitGroup) {\n\tdefer wg.Done()\n\tif bus.parentNetwork != nil {\n\t\tbus.parentNetwork.desc += \"\"\n\t}\n")]),
    # String() caches its result in the node
    ("node-string-cached", [("node.go", "\tid             NodeID\n\tinterfaceCount int\n}", "\tid             NodeID\n\tinterfaceCount int\n\tstrCache       string\n}"),
                            ("node.go", "\tn.stringify(builder, 0)\n\treturn builder.String()\n}", "\tn.stringify(builder, 0)\n\tn.strCache = builder.String()\n\treturn n.strCache\n}")]),
    # Values() caches the sorted slice in the enum
    ("enum-values-cached", [("signal_enum.go", "\tmaxIndex int\n\tminSize  int\n}", "\tmaxIndex int\n\tminSize  int\n\tsorted   []*SignalEnumValue\n}"),
                            ("signal_enum.go", "\tvalueSlice := se.values.getValues()\n", "\tvalueSlice := se.values.getValues()\n\tse.sorted = valueSlice\n")]),
    # the DBC exporter registers the on-the-fly special attribute assignments with the GLOBAL attribute (addRef: map write)
    ("exporter-addref-on-global-attribute", [("exporter.go", "\t\tattAssignments = append(attAssignments, newAttributeAssignment(msgCycleTimeAtt, msg, msg.cycleTime))",
                                              "\t\tcta := newAttributeAssignment(msgCycleTimeAtt, msg, msg.cycleTime)\n\t\tmsgCycleTimeAtt.addRef(cta)\n\t\tmsgCycleTimeAtt.removeRef(cta.EntityID())\n\t\tattAssignments = append(attAssignments, cta)")]),
    # CalculateBusLoad counts its calls in the bus
    ("busload-counter", [("bus.go", "\tbaudrate int\n\ttyp      BusType\n}", "\tbaudrate int\n\ttyp      BusType\n\n\tloadCalls int\n}"),
                         ("utils.go", "\tif bus.baudrate == 0 {\n\t\treturn 0, msgLoads, nil\n\t}", "\tbus.loadCalls++\n\tif bus.baudrate == 0 {\n\t\treturn 0, msgLoads, nil\n\t}")]),
    # the Markdown exporter sorts the bus's message list through a shared scratch slice in the network? -> saver touches desc
    ("saver-normalises-desc-in-place", [("saver.go", "\tpNet.Entity = s.saveEntity(net.entity)\n", "\tnet.entity.desc = strings.TrimSpace(net.entity.desc + \" \")\n\tpNet.Entity = s.saveEntity(net.entity)\n")]),
    # ExportNetwork no longer waits for its workers
    ("exportnetwork-does-not-wait", [("exporter.go", "\t\tgo exportBusAsync(f, bus, wg)\n\t}\n\n\twg.Wait()\n", "\t\tgo exportBusAsync(f, bus, wg)\n\t}\n")]),
]


def sh(cmd, cwd=None, env=None):
    p = subprocess.run(cmd, cwd=cwd, env=env, shell=True, stdout=subprocess.PIPE, stderr=subprocess.STDOUT)
    return p.returncode, p.stdout.decode("utf-8", "replace")


def main():
    wt = sys.argv[1]
    only = sys.argv[2:]
    env = dict(os.environ, GOFLAGS="-mod=mod", GOPROXY="off")
    env.pop("GOTOOLCHAIN", None)
    env.pop("GOSUMDB", None)
    verif = os.path.dirname(os.path.dirname(os.path.dirname(os.path.abspath(__file__))))
    res = []
    for name, edits in MUTANTS:
        if only and name not in only:
            continue
        sh("git checkout -q -- . && git clean -fdq", cwd=wt)
        bad = None
        for file, old, new in edits:
            p = os.path.join(wt, file)
            src = open(p).read()
            if src.count(old) != 1:
                bad = "PATTERN-NOT-UNIQUE(%s:%d)" % (file, src.count(old))
                break
            open(p, "w").write(src.replace(old, new))
        if bad:
            res.append((name, bad, "", 0))
            print("%-42s %s" % (name, bad), flush=True)
            continue
        rc_t, out_t = sh("go build ./... && go test -count=1 ./... 2>&1 | tail -5", cwd=wt, env=env)
        tests = "tests-pass" if rc_t == 0 and "FAIL" not in out_t and "rror" not in out_t else "TESTS-FAIL"
        t0 = time.time()
        rc, out = sh("./check C18 --tier quick", cwd=verif, env=dict(env, VERIF_REPO=wt, VERIF_EVIDENCE_DIR="/tmp/c18-mut-evidence"))
        viol = [l for l in out.splitlines() if l.startswith("  (")]
        res.append((name, tests, "CAUGHT" if rc != 0 and viol else "MISSED", time.time() - t0))
        print("%-42s %-11s %-7s %5.1fs  %s" % (name, tests, res[-1][2], res[-1][3], " | ".join(v.strip()[:110] for v in viol[:3])), flush=True)
        if tests != "tests-pass":
            print("   " + out_t[-300:].replace("\n", "\n   "))
    sh("git checkout -q -- . && git clean -fdq", cwd=wt)
    print("caught %d / %d" % (sum(1 for r in res if r[2] == "CAUGHT"), len(res)))


if __name__ == "__main__":
    main()
