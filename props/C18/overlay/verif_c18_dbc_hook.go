//go:build verif

package dbc

// VerifC18Global names one package-level variable; Ptr points at it.
type VerifC18Global struct {
	Name string
	Ptr  any
}

// VerifC18Globals: package-level variables of package dbc (fallback list of the pinned tree; see
// the acmelib hook).
func VerifC18Globals() []VerifC18Global {
	return []VerifC18Global{
		{"MsgSendTypeName", &MsgSendTypeName}, {"MsgSendTypeValues", &MsgSendTypeValues},
		{"SigSendTypeName", &SigSendTypeName}, {"SigSendTypeValues", &SigSendTypeValues},
		{"keywords", &keywords}, {"newSymbolsValues", &newSymbolsValues}, {"envVarAccessTypes", &envVarAccessTypes},
		{"punctKeywords", &punctKeywords}, {"tokenNames", &tokenNames},
	}
}
