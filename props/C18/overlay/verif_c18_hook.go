//go:build verif

package acmelib

// VerifC18Global names one package-level variable; Ptr points at it.
type VerifC18Global struct {
	Name string
	Ptr  any
}

// VerifC18Globals returns pointers to the package-level variables of package acmelib, so that the
// C18 deep snapshot covers process-global state (a lazily filled table or cache written on a read
// path shows up as snapshot-write:global(<name>)).  Add-only hook, injected with -overlay; never
// committed.
//
// This file is the FALLBACK list (the variables of the pinned tree).  props/C18/check.py
// regenerates the list on every run from the sources of the tree under check
// (props/C18/globals, go/parser), so that a variable introduced by a later change is covered too.
func VerifC18Globals() []VerifC18Global {
	return []VerifC18Global{
		{"ErrIsDuplicated", &ErrIsDuplicated}, {"ErrNotFound", &ErrNotFound}, {"ErrIsNegative", &ErrIsNegative},
		{"ErrOutOfBounds", &ErrOutOfBounds}, {"ErrIsZero", &ErrIsZero}, {"ErrIsNil", &ErrIsNil},
		{"ErrNoSpaceLeft", &ErrNoSpaceLeft}, {"ErrIntersect", &ErrIntersect}, {"ErrInvalidType", &ErrInvalidType},
		{"ErrReceiverIsSender", &ErrReceiverIsSender}, {"ErrTooSmall", &ErrTooSmall}, {"ErrTooBig", &ErrTooBig},
		{"specialAttributeNames", &specialAttributeNames}, {"specialAttributeTypes", &specialAttributeTypes},
		{"msgCycleTimeAtt", &msgCycleTimeAtt}, {"msgDelayTimeAtt", &msgDelayTimeAtt},
		{"msgStartDelayTimeAtt", &msgStartDelayTimeAtt}, {"msgSendTypeAtt", &msgSendTypeAtt},
		{"sigStartValueAtt", &sigStartValueAtt}, {"sigSendTypeAtt", &sigSendTypeAtt},
	}
}
