//go:build verif

package acmelib

// VerifC18Globals returns the package-level mutable objects that read-only operations can reach
// (the special attributes the DBC exporter attaches on the fly and the two lookup tables), so
// that the C18 deep snapshot covers them.  Add-only hook, injected with -overlay; never committed.
func VerifC18Globals() []any {
	return []any{
		msgCycleTimeAtt, msgDelayTimeAtt, msgStartDelayTimeAtt, msgSendTypeAtt,
		sigStartValueAtt, sigSendTypeAtt,
		specialAttributeNames, specialAttributeTypes,
	}
}
