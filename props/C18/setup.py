import os
import vlib


def setup():
    here = os.path.dirname(os.path.abspath(__file__))
    vlib.build_ocaml_driver("c18_driver", os.path.join(vlib.COQ, "extracted"),
                            os.path.join(here, "driver", "c18_driver.ml"), only=["c18_model"])
