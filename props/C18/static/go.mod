module verif/c18static

go 1.24.0

require golang.org/x/tools v0.29.0

require (
	golang.org/x/mod v0.22.0 // indirect
	golang.org/x/sync v0.10.0 // indirect
)
