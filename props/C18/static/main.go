// c18static: static store analysis of the read paths of package acmelib (go/ssa).
//
// For every read-only entry point of the tree under check (every exported function / method of
// package acmelib whose name does not start with a mutator verb and is not a constructor /
// importer / loader / Clone, i.e. the same rule the C18 harness uses to enumerate operations)
// it computes the functions of packages acmelib and acmelib/dbc reachable in the call graph and
// lists the STORES to shared memory they contain:
//
//	S1  a field store whose owning struct type is a MODEL type (a type reachable through fields
//	    from the entities: Network, Bus, Node, NodeInterface, Message, the signals, SignalType,
//	    SignalUnit, SignalEnum(Value), the attributes, AttributeAssignment, CANIDBuilder(Op),
//	    SignalLayout(Filter), entity, withAttributes, withRefs, set, ...), unless the object was
//	    allocated in the same function (composite literal / new: a constructor filling a fresh object)
//	S2  an element / map / pointer store (IndexAddr, MapUpdate, *p = v) or a builtin copy / delete /
//	    clear / in-place append whose target was LOADED FROM a field of a model type or from a
//	    package-level variable (e.g. s.m[k] = v in set.add, layout.signals[i] = x)
//	S3  a call of a mutating standard-library function (slices.Sort*, slices.Reverse, sort.*,
//	    slices.Insert / Delete / Compact ..., maps.Clear / DeleteFunc ...) whose slice / map argument was
//	    loaded from a field of a model type or from a package-level variable (in-place sort of a
//	    shared slice)
//	S4  a store to a package-level variable (outside init), directly or through it
//	S5  a store to a variable captured by a closure that is started with `go` (workers sharing a local)
//	S6  a send or receive on a channel held in a package-level variable or in the model (free lists,
//	    pools: objects handed from one caller to the next)
//
// Output: one line per store site  "STORE <func> <target> <kind> <position> via <entry>[,<entry>...]".
// props/C18/check.py compares the sites with the footprint the Coq model declares
// (Node.errorf: Node.intErrNum, SignalEnum.errorf: SignalEnum.parErrID).
//
// Approximations (see props/C18/NOTES.md): calls are resolved statically, interface method calls
// by class-hierarchy analysis restricted to the types of the two packages, closures defined in a
// reachable function are reachable; code outside the two packages (fmt, protobuf, markdown, sort)
// is not analysed except for the S3 list; reflection-driven calls (fmt calling String()) are not
// followed (every String() is an entry point of its own); stores through a fresh local object are
// ignored even if a field of that object aliases shared memory, EXCEPT when the owning type of
// the stored field is a model type (S1 does not look at the root).
package main

import (
	"fmt"
	"go/token"
	"go/types"
	"os"
	"sort"
	"strings"

	"golang.org/x/tools/go/packages"
	"golang.org/x/tools/go/ssa"
	"golang.org/x/tools/go/ssa/ssautil"
)

const pkgPath = "github.com/squadracorsepolito/acmelib"

var mutatorPrefixes = []string{"Set", "Update", "Add", "Remove", "Insert", "Append", "Delete", "Assign",
	"Shift", "Compact", "Clear", "Use"}

// not read-only operations of the property: they build NEW objects by calling mutators on them
var excludedPrefixes = []string{"New", "Import", "Load", "Clone"}

var entityRoots = []string{"Network", "Bus", "Node", "NodeInterface", "Message", "StandardSignal", "EnumSignal",
	"MultiplexerSignal", "SignalType", "SignalUnit", "SignalEnum", "SignalEnumValue", "StringAttribute",
	"IntegerAttribute", "FloatAttribute", "EnumAttribute", "AttributeAssignment", "CANIDBuilder", "CANIDBuilderOp",
	"SignalLayout", "SignalLayoutFilter"}

var mutatingStdlib = map[string]bool{
	"slices.Sort": true, "slices.SortFunc": true, "slices.SortStableFunc": true, "slices.Reverse": true,
	"slices.Insert": true, "slices.Delete": true, "slices.DeleteFunc": true, "slices.Compact": true,
	"slices.CompactFunc": true, "slices.Replace": true, "slices.Clip": false, "slices.Grow": false,
	"sort.Slice": true, "sort.SliceStable": true, "sort.Sort": true, "sort.Stable": true, "sort.Ints": true,
	"sort.Strings": true, "sort.Float64s": true, "maps.Clear": true, "maps.DeleteFunc": true, "maps.Copy": true,
	"golang.org/x/exp/slices.Sort": true, "golang.org/x/exp/slices.SortFunc": true, "golang.org/x/exp/slices.SortStableFunc": true,
	"golang.org/x/exp/slices.Reverse": true, "golang.org/x/exp/slices.Insert": true, "golang.org/x/exp/slices.Delete": true,
	"golang.org/x/exp/slices.DeleteFunc": true, "golang.org/x/exp/slices.Compact": true, "golang.org/x/exp/slices.CompactFunc": true,
	"golang.org/x/exp/slices.Replace": true, "golang.org/x/exp/maps.Clear": true, "golang.org/x/exp/maps.DeleteFunc": true,
	"golang.org/x/exp/maps.Copy": true,
}

type retKey struct {
	f   *ssa.Function
	idx int
}

type analysis struct {
	prog       *ssa.Program
	modelTypes map[string]bool // names of model struct types (origin names)
	inScope    map[*ssa.Package]bool
	methodsBy  map[string][]*ssa.Function // method name -> concrete methods of in-scope types
	goTargets  map[*ssa.Function]bool
	retModel   map[retKey]*rootInfo // memo: the function returns memory of the model (a getter handing out a slice / map of the model uncopied)
}

func hasPrefix(name string, ps []string) bool {
	for _, p := range ps {
		if strings.HasPrefix(name, p) {
			return true
		}
	}
	return false
}

func namedOf(t types.Type) *types.Named {
	for {
		switch x := t.(type) {
		case *types.Pointer:
			t = x.Elem()
		case *types.Named:
			return x
		case *types.Alias:
			t = types.Unalias(x)
		default:
			return nil
		}
	}
}

func (a *analysis) collectModelTypes(pkg *types.Package) {
	seen := map[types.Type]bool{}
	var visit func(t types.Type)
	visit = func(t types.Type) {
		if t == nil || seen[t] {
			return
		}
		seen[t] = true
		switch x := t.(type) {
		case *types.Alias:
			visit(types.Unalias(x))
		case *types.Named:
			o := x.Origin()
			if o.Obj().Pkg() != nil && o.Obj().Pkg().Path() == pkgPath {
				if _, ok := o.Underlying().(*types.Struct); ok {
					a.modelTypes[o.Obj().Name()] = true
				}
				visit(o.Underlying())
				if ta := x.TypeArgs(); ta != nil {
					for i := 0; i < ta.Len(); i++ {
						visit(ta.At(i))
					}
				}
			}
		case *types.Pointer:
			visit(x.Elem())
		case *types.Slice:
			visit(x.Elem())
		case *types.Array:
			visit(x.Elem())
		case *types.Map:
			visit(x.Key())
			visit(x.Elem())
		case *types.Struct:
			for i := 0; i < x.NumFields(); i++ {
				visit(x.Field(i).Type())
			}
		case *types.Interface:
			// the implementations of an interface of the package (Signal, Attribute) are entity roots
		}
	}
	for _, n := range entityRoots {
		if o := pkg.Scope().Lookup(n); o != nil {
			visit(o.Type())
		}
	}
}

// root classification of an address / container value
type rootKind int

const (
	rkLocal  rootKind = iota // local variable, fresh allocation, call result, constant ...
	rkModel                  // loaded from a field of a model type
	rkGlobal                 // package-level variable (or loaded from one)
	rkParam                  // parameter / receiver / captured variable
)

type rootInfo struct {
	kind rootKind
	desc string
	free *ssa.FreeVar
}

func (a *analysis) structName(t types.Type) (string, bool) {
	n := namedOf(t)
	if n == nil {
		return "", false
	}
	o := n.Origin()
	if o.Obj().Pkg() == nil || o.Obj().Pkg().Path() != pkgPath {
		return o.Obj().Name(), false
	}
	return o.Obj().Name(), a.modelTypes[o.Obj().Name()]
}

func fieldName(t types.Type, idx int) string {
	if p, ok := t.Underlying().(*types.Pointer); ok {
		t = p.Elem()
	}
	if s, ok := t.Underlying().(*types.Struct); ok && idx < s.NumFields() {
		return s.Field(idx).Name()
	}
	return fmt.Sprintf("#%d", idx)
}

// root walks an SSA value back to where the memory it designates comes from.
func (a *analysis) root(v ssa.Value, depth int) rootInfo {
	if depth > 40 {
		return rootInfo{kind: rkLocal, desc: "?"}
	}
	switch x := v.(type) {
	case *ssa.Global:
		return rootInfo{kind: rkGlobal, desc: x.Name()}
	case *ssa.Parameter:
		return rootInfo{kind: rkParam, desc: x.Name()}
	case *ssa.FreeVar:
		return rootInfo{kind: rkParam, desc: "captured " + x.Name(), free: x}
	case *ssa.Alloc, *ssa.MakeSlice, *ssa.MakeMap, *ssa.MakeChan, *ssa.MakeInterface, *ssa.MakeClosure, *ssa.Const:
		return rootInfo{kind: rkLocal, desc: "fresh"}
	case *ssa.FieldAddr:
		r := a.root(x.X, depth+1)
		if sn, isModel := a.structName(x.X.Type()); isModel && r.kind != rkGlobal {
			if _, fresh := x.X.(*ssa.Alloc); !fresh {
				return rootInfo{kind: rkModel, desc: sn + "." + fieldName(x.X.Type(), x.Field)}
			}
		}
		return r
	case *ssa.Field:
		return a.root(x.X, depth+1)
	case *ssa.IndexAddr:
		return a.root(x.X, depth+1)
	case *ssa.Index:
		return a.root(x.X, depth+1)
	case *ssa.Lookup:
		return a.root(x.X, depth+1)
	case *ssa.Slice:
		return a.root(x.X, depth+1)
	case *ssa.UnOp:
		if x.Op == token.MUL { // load: the value was stored in the memory designated by x.X
			return a.root(x.X, depth+1)
		}
		return rootInfo{kind: rkLocal, desc: "value"}
	case *ssa.ChangeType:
		return a.root(x.X, depth+1)
	case *ssa.Convert:
		return a.root(x.X, depth+1)
	case *ssa.ChangeInterface:
		return a.root(x.X, depth+1)
	case *ssa.TypeAssert:
		return a.root(x.X, depth+1)
	case *ssa.Extract:
		if c, ok := x.Tuple.(*ssa.Call); ok {
			return a.callResultRoot(c, x.Index, x.Type(), depth)
		}
		return a.root(x.Tuple, depth+1)
	case *ssa.Phi:
		best := rootInfo{kind: rkLocal, desc: "phi"}
		for _, e := range x.Edges {
			if e == v {
				continue
			}
			r := a.root(e, depth+8)
			if r.kind != rkLocal && (best.kind == rkLocal || r.kind == rkModel || r.kind == rkGlobal) {
				best = r
			}
		}
		return best
	case *ssa.Call:
		return a.callResultRoot(x, 0, x.Type(), depth)
	}
	return rootInfo{kind: rkLocal, desc: fmt.Sprintf("%T", v)}
}

// callResultRoot: a value returned by a call is local UNLESS it is reference-like at the call site
// (slice / map / pointer, also when the callee is generic and returns a type parameter: set.getValue
// instantiated with V = []int) and the callee (of the two packages) returns memory of the model itself:
// Message.Signals() returns the layout's slice, set.entries() the map, set.getValue(k) the stored slice,
// GetSignalGroup the group's slice ...  Interface calls: any implementation that does.
func (a *analysis) callResultRoot(x *ssa.Call, idx int, t types.Type, depth int) rootInfo {
	local := rootInfo{kind: rkLocal, desc: "call result"}
	if _, isTypeParam := types.Unalias(t).(*types.TypeParam); !isTypeParam { // inside an instantiation wrapper the result still has the type parameter
		switch t.Underlying().(type) {
		case *types.Slice, *types.Map:
		default:
			return local
		}
	}
	if x.Call.IsInvoke() {
		if it, ok := x.Call.Value.Type().Underlying().(*types.Interface); ok {
			for _, g := range a.methodsBy[x.Call.Method.Name()] {
				recv := g.Signature.Recv().Type()
				if types.Implements(recv, it) || types.Implements(types.NewPointer(recv), it) {
					if r := a.returnsModel(g, idx, depth+1); r != nil {
						return *r
					}
				}
			}
		}
	} else if f := x.Call.StaticCallee(); f != nil {
		if r := a.returnsModel(f, idx, depth+1); r != nil {
			return *r
		}
	}
	return local
}

// returnsModel: does f (a function of the two packages) return a slice / map / pointer-to-element that
// designates memory of the model (not a copy)?  Only reference-like results count.
func (a *analysis) returnsModel(f *ssa.Function, idx int, depth int) *rootInfo {
	if f.Origin() != nil && len(f.Blocks) == 0 {
		f = f.Origin()
	}
	key := retKey{f, idx}
	if r, ok := a.retModel[key]; ok {
		return r
	}
	a.retModel[key] = nil // recursion guard
	if depth > 30 || len(f.Blocks) == 0 {
		return nil
	}
	inScope := false
	if f.Pkg != nil && a.inScope[f.Pkg] {
		inScope = true
	} else if f.Object() != nil && f.Object().Pkg() != nil && strings.HasPrefix(f.Object().Pkg().Path(), pkgPath) {
		inScope = true
	} else if o := f.Origin(); o != nil && o.Pkg != nil && a.inScope[o.Pkg] {
		inScope = true // instantiation wrapper of a generic function of the two packages
	}
	if !inScope {
		return nil
	}
	for _, b := range f.Blocks {
		for _, ins := range b.Instrs {
			ret, ok := ins.(*ssa.Return)
			if !ok {
				continue
			}
			if idx >= len(ret.Results) {
				continue
			}
			v := ret.Results[idx]
			switch v.Type().Underlying().(type) {
			case *types.Slice, *types.Map, *types.Interface: // Interface: the constraint of a type parameter
			default:
				continue
			}
			if r := a.root(v, depth+1); r.kind == rkModel || r.kind == rkGlobal {
				rr := r
				rr.desc = r.desc + " (returned by " + fnName(f) + ")"
				a.retModel[key] = &rr
				return &rr
			}
		}
	}
	return nil
}

type site struct {
	fn, target, kind, pos string
}

func (a *analysis) pos(p token.Pos) string {
	ps := a.prog.Fset.Position(p)
	f := ps.Filename
	if i := strings.LastIndex(f, "/"); i >= 0 {
		f = f[i+1:]
	}
	return fmt.Sprintf("%s:%d", f, ps.Line)
}

func fnName(f *ssa.Function) string {
	s := f.String()
	s = strings.ReplaceAll(s, pkgPath+"/dbc.", "dbc.")
	s = strings.ReplaceAll(s, pkgPath+".", "")
	return strings.ReplaceAll(s, " ", "")
}

func kindWord(r rootInfo) string {
	if r.kind == rkGlobal {
		return "global "
	}
	return ""
}

// storesOf lists the shared-memory stores of one function.
func (a *analysis) storesOf(f *ssa.Function) []site {
	var res []site
	add := func(target, kind string, p token.Pos) {
		res = append(res, site{fnName(f), target, kind, a.pos(p)})
	}
	isInit := f.Name() == "init" || strings.HasPrefix(f.Name(), "init#")
	for _, b := range f.Blocks {
		for _, ins := range b.Instrs {
			switch x := ins.(type) {
			case *ssa.Store:
				switch addr := x.Addr.(type) {
				case *ssa.FieldAddr:
					sn, isModel := a.structName(addr.X.Type())
					fn := fieldName(addr.X.Type(), addr.Field)
					r := a.root(addr.X, 0)
					_, fresh := addr.X.(*ssa.Alloc)
					switch {
					case r.kind == rkGlobal && !isInit:
						add("global "+r.desc+" ("+sn+"."+fn+")", "S4", x.Pos())
					case isModel && !fresh:
						add(sn+"."+fn, "S1", x.Pos())
					case r.kind == rkModel:
						add(r.desc+" -> "+sn+"."+fn, "S2", x.Pos())
					case r.free != nil && a.goTargets[f]:
						add("captured "+r.free.Name()+"."+fn, "S5", x.Pos())
					}
				default:
					r := a.root(x.Addr, 0)
					switch {
					case r.kind == rkGlobal && !isInit:
						add("global "+r.desc, "S4", x.Pos())
					case r.kind == rkModel:
						add(r.desc+"[...]", "S2", x.Pos())
					case r.free != nil && a.goTargets[f]:
						add("captured "+r.free.Name(), "S5", x.Pos())
					}
				}
			case *ssa.Send:
				// S6: a channel held in a package-level variable or in the model is shared state: a send
				// or a receive on a read path hands objects from one caller to another (free lists, pools)
				if r := a.root(x.Chan, 0); (r.kind == rkGlobal && !isInit) || r.kind == rkModel {
					add(kindWord(r)+r.desc+" (chan send)", "S6", x.Pos())
				}
			case *ssa.Select:
				for _, st := range x.States {
					if r := a.root(st.Chan, 0); (r.kind == rkGlobal && !isInit) || r.kind == rkModel {
						dir := "chan receive"
						if st.Dir == types.SendOnly {
							dir = "chan send"
						}
						add(kindWord(r)+r.desc+" ("+dir+")", "S6", x.Pos())
					}
				}
			case *ssa.UnOp:
				if x.Op == token.ARROW {
					if r := a.root(x.X, 0); (r.kind == rkGlobal && !isInit) || r.kind == rkModel {
						add(kindWord(r)+r.desc+" (chan receive)", "S6", x.Pos())
					}
				}
			case *ssa.MapUpdate:
				r := a.root(x.Map, 0)
				if r.kind == rkGlobal && !isInit {
					add("global "+r.desc+"[key]", "S4", x.Pos())
				} else if r.kind == rkModel {
					add(r.desc+"[key]", "S2", x.Pos())
				}
			case *ssa.Call:
				a.callStores(f, &x.Call, x.Pos(), isInit, add)
			case *ssa.Go:
				a.callStores(f, &x.Call, x.Pos(), isInit, add)
			case *ssa.Defer:
				a.callStores(f, &x.Call, x.Pos(), isInit, add)
			}
		}
	}
	return res
}

func (a *analysis) callStores(f *ssa.Function, c *ssa.CallCommon, p token.Pos, isInit bool, add func(string, string, token.Pos)) {
	if bi, ok := c.Value.(*ssa.Builtin); ok {
		switch bi.Name() {
		case "copy", "delete", "clear":
			if len(c.Args) > 0 {
				r := a.root(c.Args[0], 0)
				if r.kind == rkGlobal && !isInit {
					add("global "+r.desc+" ("+bi.Name()+")", "S4", p)
				} else if r.kind == rkModel {
					add(r.desc+" ("+bi.Name()+")", "S2", p)
				}
			}
		case "append":
			// append(shared, ...) writes the spare capacity of the shared backing array, whether or not
			// the result is stored back (a mutator stores it back: `x.f = append(x.f, v)` is an S1 site
			// of its own; on a read path any append to memory of the model is a write)
			if len(c.Args) > 0 {
				r := a.root(c.Args[0], 0)
				if r.kind == rkGlobal && !isInit {
					add("global "+r.desc+" (append)", "S4", p)
				} else if r.kind == rkModel {
					add(r.desc+" (append)", "S2", p)
				}
			}
		}
		return
	}
	callee := c.StaticCallee()
	if callee == nil || callee.Pkg == nil && callee.Origin() == nil {
		return
	}
	o := callee
	if o.Origin() != nil {
		o = o.Origin()
	}
	if o.Pkg == nil {
		return
	}
	name := o.Pkg.Pkg.Path() + "." + o.Name()
	// strconv.AppendFloat(buf[:0], ...), fmt.Appendf, utf8.AppendRune, ...: append-style functions of
	// other packages write into the spare capacity of their first argument
	appendStyle := !a.inScope[o.Pkg] && strings.HasPrefix(o.Name(), "Append")
	if (mutatingStdlib[name] || appendStyle) && len(c.Args) > 0 {
		r := a.root(c.Args[0], 0)
		short := name[strings.LastIndex(name, "/")+1:]
		if r.kind == rkGlobal && !isInit {
			add("global "+r.desc+" ("+short+")", "S4", p)
		} else if r.kind == rkModel {
			add(r.desc+" ("+short+")", "S3", p)
		}
	}
}

// callees of f restricted to the two packages
func (a *analysis) callees(f *ssa.Function) []*ssa.Function {
	var out []*ssa.Function
	addFn := func(g *ssa.Function) {
		if g == nil {
			return
		}
		if g.Origin() != nil && len(g.Blocks) == 0 {
			g = g.Origin()
		}
		p := g.Pkg
		if p == nil && g.Origin() != nil {
			p = g.Origin().Pkg
		}
		if p == nil && g.Parent() != nil {
			p = g.Parent().Pkg
		}
		if p != nil && a.inScope[p] {
			out = append(out, g)
			return
		}
		// synthetic wrappers (promoted methods of embedded types, instantiations of generic methods,
		// bound-method closures) have no package: they are in scope when the method they wrap is
		if p == nil && g.Object() != nil && g.Object().Pkg() != nil && strings.HasPrefix(g.Object().Pkg().Path(), pkgPath) {
			out = append(out, g)
		}
	}
	for _, anon := range f.AnonFuncs {
		addFn(anon)
	}
	for _, b := range f.Blocks {
		for _, ins := range b.Instrs {
			// a function whose value is taken (method value, function passed as an argument, closure)
			// may be called by whoever receives it: it is reachable
			for _, op := range ins.Operands(nil) {
				if op == nil || *op == nil {
					continue
				}
				switch v := (*op).(type) {
				case *ssa.Function:
					addFn(v)
				case *ssa.MakeClosure:
					if g, ok := v.Fn.(*ssa.Function); ok {
						addFn(g)
					}
				}
			}
			var c *ssa.CallCommon
			switch x := ins.(type) {
			case *ssa.Call:
				c = &x.Call
			case *ssa.Go:
				c = &x.Call
				if mc, ok := x.Call.Value.(*ssa.MakeClosure); ok {
					if g, ok := mc.Fn.(*ssa.Function); ok {
						a.goTargets[g] = true
					}
				}
			case *ssa.Defer:
				c = &x.Call
			}
			if c == nil {
				continue
			}
			if c.IsInvoke() {
				for _, g := range a.methodsBy[c.Method.Name()] {
					recv := g.Signature.Recv().Type()
					if types.Implements(recv, c.Value.Type().Underlying().(*types.Interface)) ||
						types.Implements(types.NewPointer(recv), c.Value.Type().Underlying().(*types.Interface)) {
						addFn(g)
					}
				}
				continue
			}
			if g := c.StaticCallee(); g != nil {
				addFn(g)
			}
		}
	}
	return out
}

func main() {
	if len(os.Args) < 2 {
		fmt.Fprintln(os.Stderr, "usage: c18static <repo dir>")
		os.Exit(2)
	}
	cfg := &packages.Config{Mode: packages.LoadAllSyntax, Dir: os.Args[1], Tests: false}
	pkgs, err := packages.Load(cfg, pkgPath, pkgPath+"/dbc")
	if err != nil || packages.PrintErrors(pkgs) > 0 {
		fmt.Fprintln(os.Stderr, "load failed:", err)
		os.Exit(1)
	}
	prog, spkgs := ssautil.AllPackages(pkgs, ssa.BuilderMode(0))
	prog.Build()
	a := &analysis{prog: prog, modelTypes: map[string]bool{}, inScope: map[*ssa.Package]bool{},
		methodsBy: map[string][]*ssa.Function{}, goTargets: map[*ssa.Function]bool{}, retModel: map[retKey]*rootInfo{}}
	var main *ssa.Package
	for i, p := range spkgs {
		if p == nil {
			continue
		}
		a.inScope[p] = true
		if pkgs[i].PkgPath == pkgPath {
			main = p
		}
	}
	if main == nil {
		fmt.Fprintln(os.Stderr, "package not found")
		os.Exit(1)
	}
	a.collectModelTypes(main.Pkg)
	// concrete methods of the in-scope packages, by name (class-hierarchy resolution of interface calls)
	for p := range a.inScope {
		for _, m := range p.Members {
			t, ok := m.(*ssa.Type)
			if !ok {
				continue
			}
			for _, ty := range []types.Type{t.Type(), types.NewPointer(t.Type())} {
				ms := prog.MethodSets.MethodSet(ty)
				for i := 0; i < ms.Len(); i++ {
					if fn := prog.MethodValue(ms.At(i)); fn != nil && len(fn.Blocks) > 0 {
						dup := false
						for _, g := range a.methodsBy[fn.Name()] {
							if g == fn {
								dup = true
							}
						}
						if !dup {
							a.methodsBy[fn.Name()] = append(a.methodsBy[fn.Name()], fn)
						}
					}
				}
			}
		}
	}
	// entry points
	var entries []*ssa.Function
	isEntry := func(name string) bool {
		return token.IsExported(name) && !hasPrefix(name, mutatorPrefixes) && !hasPrefix(name, excludedPrefixes)
	}
	for _, m := range main.Members {
		switch x := m.(type) {
		case *ssa.Function:
			if isEntry(x.Name()) && x.Signature.Recv() == nil {
				entries = append(entries, x)
			}
		case *ssa.Type:
			if !token.IsExported(x.Name()) {
				// methods promoted from unexported embedded types (entity, withAttributes, signal) are
				// reached through the exported types embedding them
			}
			for _, ty := range []types.Type{x.Type(), types.NewPointer(x.Type())} {
				ms := prog.MethodSets.MethodSet(ty)
				for i := 0; i < ms.Len(); i++ {
					fn := prog.MethodValue(ms.At(i))
					if fn == nil || !isEntry(fn.Name()) {
						continue
					}
					if strings.HasSuffix(x.Name(), "Error") && (fn.Name() == "Error" || fn.Name() == "Unwrap") {
						continue
					}
					entries = append(entries, fn)
				}
			}
		}
	}
	sort.Slice(entries, func(i, j int) bool { return entries[i].String() < entries[j].String() })
	// first pass over all in-scope functions so that goTargets is complete before stores are classified
	for p := range a.inScope {
		for _, m := range p.Members {
			if f, ok := m.(*ssa.Function); ok {
				a.callees(f)
			}
		}
	}
	type acc struct {
		s   site
		via map[string]bool
	}
	sites := map[site]*acc{}
	storeCache := map[*ssa.Function][]site{}
	calleeCache := map[*ssa.Function][]*ssa.Function{}
	nReach := 0
	for _, e := range entries {
		seen := map[*ssa.Function]bool{}
		work := []*ssa.Function{e}
		for len(work) > 0 {
			f := work[len(work)-1]
			work = work[:len(work)-1]
			if seen[f] {
				continue
			}
			seen[f] = true
			nReach++
			ss, ok := storeCache[f]
			if !ok {
				ss = a.storesOf(f)
				storeCache[f] = ss
			}
			for _, s := range ss {
				if sites[s] == nil {
					sites[s] = &acc{s: s, via: map[string]bool{}}
				}
				sites[s].via[fnName(e)] = true
			}
			cs, ok := calleeCache[f]
			if !ok {
				cs = a.callees(f)
				calleeCache[f] = cs
			}
			work = append(work, cs...)
		}
	}
	var out []string
	for _, x := range sites {
		var vs []string
		for v := range x.via {
			vs = append(vs, v)
		}
		sort.Strings(vs)
		n := len(vs)
		if n > 6 {
			vs = append(vs[:6], fmt.Sprintf("...+%d", n-6))
		}
		out = append(out, fmt.Sprintf("STORE %s %s %s %s via %s", x.s.fn, strings.ReplaceAll(x.s.target, " ", "_"), x.s.kind, x.s.pos, strings.Join(vs, ",")))
	}
	sort.Strings(out)
	for _, l := range out {
		fmt.Println(l)
	}
	var mt []string
	for n := range a.modelTypes {
		mt = append(mt, n)
	}
	sort.Strings(mt)
	if os.Getenv("C18STATIC_DEBUG") != "" {
		for f := range storeCache {
			fmt.Println("VISITED", fnName(f))
		}
	}
	fmt.Printf("SUMMARY entries=%d functions_visited=%d analysed_functions=%d model_types=%d sites=%d\n", len(entries), nReach, len(storeCache), len(mt), len(out))
	fmt.Printf("MODELTYPES %s\n", strings.Join(mt, ","))
	fmt.Println("END")
}
