"""C19 — interval tree.  Proof: coq/Properties/C19.v.  Tie: overlay harness in package internal
records the complete tree shape / sizes / query answers after every step of generated histories;
the extracted Coq model recomputes them (props/C19/driver); the property predicates are also
evaluated by the harness on the implementation's own results."""
import os
import re
import sys
import time
import vlib

PID = "C19"


def run_impl(ctx, replay_ops=None):
    ov = vlib.overlay_json(ctx.scratch, {
        "internal/verif_c19_test.go": os.path.join(ctx.prop_dir, "overlay", "verif_c19_test.go")})
    out = os.path.join(ctx.scratch, "cases.txt")
    env = vlib.goenv()
    env.update({"VERIF_OUT": out, "VERIF_SEED": str(ctx.seed), "VERIF_TIER": ctx.tier})
    if replay_ops:
        env["VERIF_REPLAY_OPS"] = replay_ops
    rc, log = vlib.sh(["go", "test", "-tags", "verif", "-overlay", ov, "-count=1", "-run", "^TestVerifC19$",
                       "-timeout", "40m", "./internal/"], cwd=vlib.repo(), env=env, timeout=2700)
    return rc, log, out


# ---- in-Coq (vm_compute) re-evaluation of a sample of the recorded cases (DESIGN 3.3) ----------

def _z(tok):
    n = int(tok)
    return "(%d)" % n if n < 0 else str(n)


def _shape_to_coq(sh):
    """'(lo hi tag max height L R)' | '.'  ->  Gallina term of type tree"""
    pos = [0]

    def rec():
        if sh[pos[0]] == ".":
            pos[0] += 1
            return "Leaf"
        assert sh[pos[0]] == "(", sh[pos[0]:pos[0] + 20]
        pos[0] += 1
        nums = []
        for _ in range(5):
            j = sh.index(" ", pos[0])
            nums.append(_z(sh[pos[0]:j]))
            pos[0] = j + 1
        l = rec()
        assert sh[pos[0]] == " "
        pos[0] += 1
        r = rec()
        assert sh[pos[0]] == ")"
        pos[0] += 1
        return "(Node %s %s %s %s %s %s %s)" % (l, nums[0], nums[1], nums[2], nums[3], nums[4], r)
    t = rec()
    assert pos[0] == len(sh), "trailing input in shape"
    return t


def _bits(b):
    return "[" + ";".join("true" if c == "1" else "false" for c in b) + "]"


def case_to_coq(line):
    parts = line.rstrip("\n").split(";")
    ops = []
    for pos, tok in enumerate(parts[0].split()):
        if tok == "X":
            ops.append("Clear")
        else:
            k, lo, hi = tok.split(":")
            # the tag of an inserted item is the 1-based position of its Insert in the history
            ops.append("Insert %s %s %d" % (_z(lo), _z(hi), pos + 1) if k == "I" else "Delete %s %s" % (_z(lo), _z(hi)))
    obs = []
    for st in parts[1].split("/") if parts[1] else []:
        sz, sh = st.split(",", 1)
        obs.append("(%s, %s)" % (_z(sz), _shape_to_coq(sh)))
    q = "None"
    if len(parts) > 2:
        f = parts[2].split(":")
        if f[0] == "Q":
            lo, hi = int(f[1]), int(f[2])
            qs = [(a, b) for a in range(lo, hi + 1) for b in range(a, hi + 1)]
            ib, cb = f[3], f[4]
        else:
            vs = [int(x) for x in f[1].split(",")]
            qs = [(a, b) for a in vs for b in vs]
            ib, cb = f[2], f[3]
        q = "Some ([%s], %s, %s)" % (";".join("(%s,%s)" % (_z(str(a)), _z(str(b))) for a, b in qs), _bits(ib), _bits(cb))
    return "{| c_ops := [%s]; c_obs := [%s]; c_qry := %s |}" % ("; ".join(ops), "; ".join(obs), q)


def vm_crosscheck(ctx, lines):
    """Evaluate `mismatches cases` inside Coq.  Returns (n_cases, mismatching indices or None, log)."""
    src = os.path.join(ctx.scratch, "c19_cases.v")
    with open(src, "w") as f:
        f.write("From Coq Require Import ZArith List Bool.\nFrom Acme.C19 Require Import Model CrossCheck.\n"
                "Import ListNotations.\nOpen Scope Z_scope.\nDefinition cases : list case := [\n")
        f.write(";\n".join(case_to_coq(l) for l in lines))
        f.write("\n].\nDefinition M := Eval vm_compute in mismatches cases.\nPrint M.\n")
    rc, out = vlib.sh(["coqc", "-R", vlib.COQ, "Acme", "-w", "-notation-overridden", src], cwd=ctx.scratch, timeout=1500)
    m = re.search(r"M\s*=\s*\[([^\]]*)\]", out)
    if rc != 0 or not m:
        return len(lines), None, out[-1500:]
    idx = [int(x) for x in re.findall(r"\d+", m.group(1))]
    return len(lines), idx, out[-300:]


def sample_lines(path, seed, n, maxlen, n_long=0):
    rng = vlib.SplitMix64(seed ^ 0xC19)
    with open(path) as f:
        allp = []
        off = 0
        for line in f:
            allp.append((off, len(line)))
            off += len(line)
    short = [i for i, (_, ln) in enumerate(allp) if ln <= maxlen]
    longs = [i for i, (_, ln) in enumerate(allp) if maxlen < ln <= 400000]
    pick = set()
    # spread over the whole file (all generator streams), seeded
    if short:
        for k in range(n):
            lo = k * len(short) // n
            hi = max(lo + 1, (k + 1) * len(short) // n)
            pick.add(short[lo + rng.below(hi - lo)])
    for _ in range(min(n_long, len(longs))):
        pick.add(longs[rng.below(len(longs))])
    out = []
    with open(path) as f:
        for i in sorted(pick):
            f.seek(allp[i][0])
            out.append(f.readline())
    return out


def parse_summary(path):
    d = {"hist": {}, "propfail": {}}
    if not os.path.exists(path):
        return d
    for line in open(path):
        p = line.rstrip("\n").split(" ", 2)
        if p[0] == "hist":
            d["hist"][p[1]] = int(p[2])
        elif p[0] == "PROPFAIL":
            d["propfail"][p[1]] = p[2]
        else:
            d[p[0]] = int(p[1])
    return d


def run(ctx):
    ctx.level = "proof"
    status = vlib.proof_status(PID, extra_targets=["C19/Extract.v", "C19/CrossCheck.v"])
    ctx.proof_gate(status)
    exe = vlib.build_ocaml_driver("c19_driver", os.path.join(vlib.COQ, "extracted"),
                                  os.path.join(ctx.prop_dir, "driver", "c19_driver.ml"), only=["c19_model"])
    replay_ops = None
    if ctx.replay:
        import json
        r = json.load(open(ctx.replay))
        replay_ops = (r.get("replay") or {}).get("ops")
    rc, log, out = run_impl(ctx, replay_ops)
    if rc != 0 or not os.path.exists(out + ".summary"):
        # the harness itself failed: a panic inside the tree, or the hook no longer builds
        m = re.search(r"panic: .*", log)
        ctx.violation("impl-run-failed", "harness run failed (%s): %s" % (m.group(0) if m else "rc=%d" % rc, log[-600:]),
                      {"log": log[-3000:]}, found_input=bool(m))
        ctx.coverage.update({"evaluations": 0})
        return
    summ = parse_summary(out + ".summary")
    rc2, mlog = vlib.sh([exe, out], timeout=2400)
    m = re.search(r"CASES (\d+) MISMATCHES (\d+)", mlog)
    mism = int(m.group(2)) if m else -1
    compared = int(m.group(1)) if m else -1
    # the driver must have compared exactly the cases the harness generated (a truncated case file,
    # a driver reading another file or stopping early is not a pass)
    ctx.min_evaluations = 50000 if not ctx.replay else 1
    if compared != summ.get("cases", 0) or rc2 != 0:
        ctx.violation("c19-driver-count", "the model driver compared %s cases, the harness generated %s (rc=%s): %s"
                      % (compared, summ.get("cases"), rc2, mlog[-400:]), {"driver_output": mlog[-3000:]}, found_input=False)
    samples = []
    with open(out) as f:
        for i, line in enumerate(f):
            if i in (5, 3000, 140000):
                samples.append(line.strip()[:400])
    # property-level failures on the implementation (found input)
    for kind, d in sorted(summ["propfail"].items()):
        ops, detail = d.split(" ## ", 1)
        ctx.violation("c19-" + kind, "IntervalBST breaks C19 (%s): %s after ops [%s]" % (kind, detail, ops),
                      {"ops": ops, "detail": detail, "how": "./check C19 --replay <this file>"})
    if mism != 0:      # reported whatever else failed: a disagreement is never hidden by another failure
        first = re.search(r"MISMATCH.*\n.*\n.*", mlog)
        ctx.violation("c19-correspondence", "model and implementation disagree on %s case(s); the theorems of "
                      "Properties/C19.v no longer speak about this code: %s" % (mism, first.group(0) if first else mlog[-500:]),
                      {"correspondence": "props/C19 shape/size/query comparison", "driver_output": mlog[:3000]},
                      found_input=False)
    # vm_compute cross-check: the same recorded observations re-evaluated by the Coq kernel
    if ctx.replay:
        xl = [l for l in open(out)]
    elif ctx.tier == "thorough":
        xl = sample_lines(out, ctx.seed, 4000, 20000, n_long=6)
    else:
        xl = sample_lines(out, ctx.seed, 120, 6000)
    t1 = time.time()
    xn, xbad, xlog = vm_crosscheck(ctx, xl)
    ctx.coverage["vm_compute_crosscheck"] = {"cases": xn, "mismatches": (len(xbad) if xbad is not None else "coqc failed"),
                                             "wall_s": round(time.time() - t1, 2)}
    if xbad is None:
        ctx.violation("c19-crosscheck-machinery", "vm_compute cross-check did not run: " + xlog, {"log": xlog}, found_input=False)
    elif xbad and mism == 0:
        # the extracted model agreed with the implementation but the kernel's evaluation does not:
        # extraction / driver and the Coq model differ
        ctx.violation("c19-crosscheck", "Coq (vm_compute) disagrees with the recorded implementation output although the "
                      "extracted model agrees, on: " + xl[xbad[0]][:300], {"case": xl[xbad[0]][:3000]}, found_input=False)
    if ctx.replay:
        print("---- replay of [%s] on %s ----" % (replay_ops, vlib.repo()))
        for kind, d in sorted(summ["propfail"].items()):
            print("property predicate FAILED on the implementation (%s): %s" % (kind, d))
        if not summ["propfail"]:
            print("property predicates on the implementation: all hold")
        rc3, vlog = vlib.sh([exe, out, "-v"], timeout=600)
        print(vlog)
        print("Coq vm_compute on the recorded observations: %s" % ("agrees" if xbad == [] else "DISAGREES on case(s) %s" % xbad))
    ctx.coverage.update({
        "evaluations": summ.get("cases", 0),
        "steps_observed": summ.get("steps", 0),
        "distinct_nontrivial": summ.get("nontrivial", 0),
        "rule": "cases = operation sequences (insert/delete/clear) run on the real IntervalBST instantiated with a payload-carrying item "
                "type (every inserted item has a unique tag) with the complete tree (bounds, tag, stored max, stored height of every node) "
                "compared with the Coq model after every step; duplicate-key streams (exhaustive over two keys, random over 1..3 keys) "
                "exercise deletes among items with equal bounds, the items predicate (stored = previously stored +/- exactly the one "
                "item, no tag twice) is judged on GetAllIntervals after every step; exhaustive over all "
                "sequences up to the stated length on coordinates 0..2 incl. inverted intervals, then seeded random dense "
                "sequences and pairwise-disjoint streams with every query in range, then extreme bounds (MinInt..MaxInt pool: "
                "all one- and two-step histories over every (lo,hi) pair, random and disjoint short histories, every ordered "
                "pair of pool values as query incl. inverted queries); a seeded sample of the recorded cases is re-evaluated "
                "inside Coq by vm_compute; non-trivial = distinct sequence whose tree reached height >= 3 (rotations exercised)",
        "distribution": summ["hist"],
        "model_mismatches": mism,
        "property_predicate_failures": sorted(summ["propfail"]),
        "samples": samples,
        "exhaustive": False,
        "trusted_base": [
            "Coq 8.16.1 kernel (coqc; coqchk in the thorough tier); vm_compute only in the closed witnesses (query_hypotheses_satisfiable, *_refuted) and in the cross-check of recorded cases, not in the for-all theorems",
            "axioms: none (Print Assumptions: Closed under the global context)" if not status["axioms"] else "axioms: " + ", ".join(status["axioms"]),
            "extraction (ExtrOcamlBasic only, no Extract Constant/Inductive of our own) + OCaml 4.13.1 + props/C19/driver/c19_driver.ml (zarith for decimal I/O)",
            "Go overlay harness props/C19/overlay/verif_c19_test.go (generators, shape printer, brute-force property predicates)",
            "model coq/C19/Model.v is a hand-written restatement of internal/interval_bst.go; tied by the shape-level correspondence above; Go int modelled as unbounded Z (the code only compares and copies bounds; extreme-bounds stream exercises the ends of the int range)",
            "coq/C19/Spec.v (meaning of spec/contents/overlaps/every_node ...) and coq/C19/ModelChk.v (where the Go code would dereference nil) are definitions to be read, not checked against the code",
        ],
    })
    ctx.assumptions = ["Go int arithmetic does not overflow inside the tree (only comparisons/copies of bounds; heights < 64)"]
    if ctx.tier == "thorough":
        ok, chk = vlib.coqchk(PID)
        ctx.coverage["coqchk"] = "ok" if ok else "FAILED"
        ctx.coverage["coqchk_tail"] = chk[-1500:]
        if not ok:
            ctx.proof_problems = (getattr(ctx, "proof_problems", []) or []) + ["coqchk failed: " + chk[-500:]]
