"""C19 — interval tree.  Proof: coq/Properties/C19.v.  Tie: overlay harness in package internal
records the complete tree shape / sizes / query answers after every step of generated histories;
the extracted Coq model recomputes them (props/C19/driver); the property predicates are also
evaluated by the harness on the implementation's own results."""
import os
import re
import sys
import vlib

PID = "C19"


def run_impl(ctx, replay_ops=None):
    ov = vlib.overlay_json(ctx.scratch, {
        "internal/verif_c19_test.go": os.path.join(ctx.prop_dir, "overlay", "verif_c19_test.go")})
    out = os.path.join(ctx.scratch, "cases.txt")
    env = vlib.goenv()
    env.update({"VERIF_OUT": out, "VERIF_SEED": str(ctx.seed), "VERIF_TIER": ctx.tier})
    if replay_ops:
        env["VERIF_REPLAY_OPS"] = replay_ops
    rc, log = vlib.sh(["go", "test", "-tags", "verif", "-overlay", ov, "-count=1", "-run", "^TestVerifC19$",
                       "-timeout", "40m", "./internal/"], cwd=vlib.repo(), env=env, timeout=2700)
    return rc, log, out


def parse_summary(path):
    d = {"hist": {}, "propfail": {}}
    if not os.path.exists(path):
        return d
    for line in open(path):
        p = line.rstrip("\n").split(" ", 2)
        if p[0] == "hist":
            d["hist"][p[1]] = int(p[2])
        elif p[0] == "PROPFAIL":
            d["propfail"][p[1]] = p[2]
        else:
            d[p[0]] = int(p[1])
    return d


def run(ctx):
    ctx.level = "proof"
    status = vlib.proof_status(PID, extra_targets=["C19/Extract.v"])
    ctx.proof_gate(status)
    exe = vlib.build_ocaml_driver("c19_driver", os.path.join(vlib.COQ, "extracted"),
                                  os.path.join(ctx.prop_dir, "driver", "c19_driver.ml"), only=["c19_model"])
    replay_ops = None
    if ctx.replay:
        import json
        r = json.load(open(ctx.replay))
        replay_ops = (r.get("replay") or {}).get("ops")
    rc, log, out = run_impl(ctx, replay_ops)
    if rc != 0 or not os.path.exists(out + ".summary"):
        # the harness itself failed: a panic inside the tree, or the hook no longer builds
        m = re.search(r"panic: .*", log)
        ctx.violation("impl-run-failed", "harness run failed (%s): %s" % (m.group(0) if m else "rc=%d" % rc, log[-600:]),
                      {"log": log[-3000:]}, found_input=bool(m))
        ctx.coverage.update({"evaluations": 0})
        return
    summ = parse_summary(out + ".summary")
    rc2, mlog = vlib.sh([exe, out], timeout=2400)
    m = re.search(r"CASES (\d+) MISMATCHES (\d+)", mlog)
    mism = int(m.group(2)) if m else -1
    samples = []
    with open(out) as f:
        for i, line in enumerate(f):
            if i in (5, 3000, 140000):
                samples.append(line.strip()[:400])
    # property-level failures on the implementation (found input)
    for kind, d in sorted(summ["propfail"].items()):
        ops, detail = d.split(" ## ", 1)
        ctx.violation("c19-" + kind, "IntervalBST breaks C19 (%s): %s after ops [%s]" % (kind, detail, ops),
                      {"ops": ops, "detail": detail, "how": "./check C19 --replay <this file>"})
    if mism != 0 and not summ["propfail"]:
        first = re.search(r"MISMATCH.*\n.*\n.*", mlog)
        ctx.violation("c19-correspondence", "model and implementation disagree on %s case(s); the theorems of "
                      "Properties/C19.v no longer speak about this code: %s" % (mism, first.group(0) if first else mlog[-500:]),
                      {"correspondence": "props/C19 shape/size/query comparison", "driver_output": mlog[:3000]},
                      found_input=False)
    if ctx.replay:
        print(mlog)
    ctx.coverage.update({
        "evaluations": summ.get("cases", 0),
        "steps_observed": summ.get("steps", 0),
        "distinct_nontrivial": summ.get("nontrivial", 0),
        "rule": "cases = operation sequences (insert/delete/clear) run on the real IntervalBST with the complete tree "
                "(items, stored max, stored height) compared with the Coq model after every step; exhaustive over all "
                "sequences up to the stated length on coordinates 0..2 incl. inverted intervals, then seeded random dense "
                "sequences and pairwise-disjoint streams with every query in range; non-trivial = distinct sequence whose "
                "tree reached height >= 3 (rotations exercised)",
        "distribution": summ["hist"],
        "model_mismatches": mism,
        "property_predicate_failures": sorted(summ["propfail"]),
        "samples": samples,
        "exhaustive": False,
        "trusted_base": [
            "Coq 8.16.1 kernel (coqc; coqchk in the thorough tier); vm_compute not used in C19 proofs",
            "axioms: none (Print Assumptions: Closed under the global context)" if not status["axioms"] else "axioms: " + ", ".join(status["axioms"]),
            "extraction (ExtrOcamlBasic only, no Extract Constant/Inductive of our own) + OCaml 4.13.1 + props/C19/driver/c19_driver.ml (zarith for decimal I/O)",
            "Go overlay harness props/C19/overlay/verif_c19_test.go (generators, shape printer, brute-force property predicates)",
            "model coq/C19/Model.v is a hand-written restatement of internal/interval_bst.go; tied by the shape-level correspondence above; Go int modelled as unbounded Z",
        ],
    })
    ctx.assumptions = ["Go int arithmetic does not overflow inside the tree (only comparisons/copies of bounds; heights < 64)"]
    if ctx.tier == "thorough":
        ok, chk = vlib.coqchk(PID)
        ctx.coverage["coqchk"] = "ok" if ok else "FAILED"
        ctx.coverage["coqchk_tail"] = chk[-1500:]
        if not ok:
            ctx.proof_problems = (getattr(ctx, "proof_problems", []) or []) + ["coqchk failed: " + chk[-500:]]
