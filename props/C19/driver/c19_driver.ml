(* Correspondence driver for C19: reads the case file written by the Go harness
   (ops;observed[;Q:lo:hi:bits:bits]), recomputes every observation with the extracted
   Coq model and prints one MISMATCH line per disagreeing case. *)
module BZ = Z   (* zarith; the extracted model defines its own module Z *)
open C19_model

let rec pos_of_z (n : BZ.t) : positive =
  if BZ.equal n BZ.one then XH
  else if BZ.testbit n 0 then XI (pos_of_z (BZ.shift_right n 1))
  else XO (pos_of_z (BZ.shift_right n 1))

let coqz_of_z (n : BZ.t) : z =
  if BZ.sign n = 0 then Z0 else if BZ.sign n > 0 then Zpos (pos_of_z n) else Zneg (pos_of_z (BZ.neg n))

let rec z_of_pos = function
  | XH -> BZ.one
  | XO p -> BZ.shift_left (z_of_pos p) 1
  | XI p -> BZ.succ (BZ.shift_left (z_of_pos p) 1)

let z_of_coqz = function Z0 -> BZ.zero | Zpos p -> z_of_pos p | Zneg p -> BZ.neg (z_of_pos p)
let cz s = coqz_of_z (BZ.of_string s)
let zs z = BZ.to_string (z_of_coqz z)

(* the tag (payload) of an inserted item is the 1-based position of its Insert in the history *)
let parse_op pos tok =
  if tok = "X" then Clear
  else match String.split_on_char ':' tok with
    | [k; lo; hi] -> if k = "I" then Insert (cz lo, cz hi, coqz_of_z (BZ.of_int (pos + 1))) else Delete (cz lo, cz hi)
    | _ -> failwith ("bad op " ^ tok)

let rec shape b = function
  | Leaf -> Buffer.add_char b '.'
  | Node (l, lo, hi, tg, mx, h, r) ->
    Buffer.add_string b (Printf.sprintf "(%s %s %s %s %s " (zs lo) (zs hi) (zs tg) (zs mx) (zs h));
    shape b l; Buffer.add_char b ' '; shape b r; Buffer.add_char b ')'

let verbose = Array.length Sys.argv > 2 && Sys.argv.(2) = "-v"

(* replay mode: both sides step by step *)
let show_steps ops_s obs model_obs q model_q =
  let ops = List.filter (fun s -> s <> "") (String.split_on_char ' ' ops_s) in
  let a = String.split_on_char '/' obs and b = String.split_on_char '/' model_obs in
  List.iteri (fun i o ->
      let ia = try List.nth a i with _ -> "<missing>" and ib = try List.nth b i with _ -> "<missing>" in
      Printf.printf "step %d %-12s impl  size,tree = %s\n%s model size,tree = %s%s\n" (i + 1) o ia
        (String.make 20 ' ') ib (if ia = ib then "" else "   <-- DIFFERS")) ops;
  (match q, model_q with
   | Some s, Some m -> Printf.printf "queries impl : %s\nqueries model: %s%s\n" s m (if s = m then "" else "   <-- DIFFERS")
   | _ -> ())

let () =
  let ic = open_in Sys.argv.(1) in
  let n = ref 0 and bad = ref 0 in
  (try while true do
      let line = input_line ic in
      incr n;
      let parts = String.split_on_char ';' line in
      let ops_s, obs, q = match parts with
        | [a; b] -> a, b, None
        | [a; b; c] -> a, b, Some c
        | _ -> failwith "bad line" in
      let ops = List.mapi parse_op (List.filter (fun s -> s <> "") (String.split_on_char ' ' ops_s)) in
      let b = Buffer.create 256 in
      let st = ref empty in
      List.iteri (fun i o ->
          st := step !st o;
          if i > 0 then Buffer.add_char b '/';
          Buffer.add_string b (zs (size !st)); Buffer.add_char b ',';
          shape b (root !st)) ops;
      let model_obs = Buffer.contents b in
      let model_q = match q with
        | None -> None
        | Some qs ->
          (* the query set: Q:lo:hi = all a<=b within [lo,hi]; P:v1,v2,.. = all ordered pairs *)
          let tag, qset = match String.split_on_char ':' qs with
            | "Q" :: lo :: hi :: _ ->
              let l = int_of_string lo and h = int_of_string hi in
              let acc = ref [] in
              for a = l to h do for c = a to h do
                  acc := (coqz_of_z (BZ.of_int a), coqz_of_z (BZ.of_int c)) :: !acc done done;
              Printf.sprintf "Q:%s:%s:" lo hi, List.rev !acc
            | "P" :: vals :: _ ->
              let vs = List.map cz (String.split_on_char ',' vals) in
              Printf.sprintf "P:%s:" vals,
              List.concat_map (fun a -> List.map (fun c -> (a, c)) vs) vs
            | _ -> failwith "bad query part" in
          let qb = Buffer.create 256 in
          Buffer.add_string qb tag;
          List.iter (fun (a, c) ->
              Buffer.add_char qb (if intersects !st a c then '1' else '0')) qset;
          Buffer.add_char qb ':';
          List.iter (fun (xl, xh) ->
              List.iter (fun (a, c) ->
                  Buffer.add_char qb (if can_update !st xl xh a c then '1' else '0')) qset)
            (inorder (root !st));
          Some (Buffer.contents qb) in
      if verbose then show_steps ops_s obs model_obs q model_q;
      if model_obs <> obs || model_q <> q then begin
        incr bad;
        if !bad <= 20 then
          Printf.printf "MISMATCH %d ops=%s\n  impl =%s%s\n  model=%s%s\n" !n ops_s obs
            (match q with Some s -> ";" ^ s | None -> "") model_obs
            (match model_q with Some s -> ";" ^ s | None -> "")
      end
    done with End_of_file -> ());
  Printf.printf "CASES %d MISMATCHES %d\n" !n !bad
