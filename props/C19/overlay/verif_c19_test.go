//go:build verif

// Injected into package internal with `go test -overlay` by /verif (never committed to /repo).
// Runs generated operation sequences on IntervalBST, records what the implementation did
// (complete tree shape after every step, sizes, contents, query answers) for the model side,
// and evaluates the C19 property predicates directly on the implementation's own results.
package internal

import (
	"bufio"
	"fmt"
	"math"
	"os"
	"sort"
	"strconv"
	"strings"
	"testing"
)

// the stored item type carries a payload: the tag of an inserted item is the 1-based position of
// its Insert in the history (unique per case); the tree must never read it (Intervalable exposes
// the bounds only) and must hand back exactly the items it was given
type vIv struct{ lo, hi, tag int }

func (i vIv) GetLow() int  { return i.lo }
func (i vIv) GetHigh() int { return i.hi }

type vOp struct {
	k      byte // 'I', 'D', 'X'
	lo, hi int
}

type vRng struct{ s uint64 }

func (r *vRng) next() uint64 {
	r.s += 0x9E3779B97F4A7C15
	z := r.s
	z = (z ^ (z >> 30)) * 0xBF58476D1CE4E5B9
	z = (z ^ (z >> 27)) * 0x94D049BB133111EB
	return z ^ (z >> 31)
}
func (r *vRng) below(n int) int { return int(r.next() % uint64(n)) }

func vShape(sb *strings.Builder, n *node[vIv]) {
	if n == nil {
		sb.WriteByte('.')
		return
	}
	fmt.Fprintf(sb, "(%d %d %d %d %d ", n.item.lo, n.item.hi, n.item.tag, n.max, n.height)
	vShape(sb, n.left)
	sb.WriteByte(' ')
	vShape(sb, n.right)
	sb.WriteByte(')')
}

// structural facts computed from scratch: real height, real max, balanced, stored fields exact
func vCheckNode(n *node[vIv]) (h int, mx int, ok bool, why string) {
	if n == nil {
		return 0, 0, true, ""
	}
	lh, lm, lok, lwhy := vCheckNode(n.left)
	if !lok {
		return 0, 0, false, lwhy
	}
	rh, rm, rok, rwhy := vCheckNode(n.right)
	if !rok {
		return 0, 0, false, rwhy
	}
	h = 1 + max(lh, rh)
	mx = n.item.hi
	if n.left != nil && lm > mx {
		mx = lm
	}
	if n.right != nil && rm > mx {
		mx = rm
	}
	if lh-rh > 1 || rh-lh > 1 {
		return h, mx, false, "unbalanced"
	}
	if n.height != h {
		return h, mx, false, "stored-height"
	}
	if n.max != mx {
		return h, mx, false, "stored-max"
	}
	return h, mx, true, ""
}

func vOverlap(a, b vIv) bool { return a.lo <= b.hi && b.lo <= a.hi }
func vSameKey(a, b vIv) bool { return a.lo == b.lo && a.hi == b.hi }

// vItemsStep: the items stored after one step must be the items stored before it (live), plus the
// inserted one / minus exactly one item with the deleted bounds (any of them) / none after Clear;
// every tag at most once.  Returns "" or what is wrong.
func vItemsStep(live map[int]vIv, o vOp, tag int, got []vIv) string {
	seen := map[int]bool{}
	for _, g := range got {
		if seen[g.tag] {
			return fmt.Sprintf("item tagged %d is stored twice", g.tag)
		}
		seen[g.tag] = true
	}
	want := map[int]vIv{}
	for k, x := range live {
		want[k] = x
	}
	removable := 0
	switch o.k {
	case 'I':
		if o.lo <= o.hi {
			want[tag] = vIv{o.lo, o.hi, tag}
		}
	case 'D':
		for _, x := range live {
			if x.lo == o.lo && x.hi == o.hi {
				removable++
			}
		}
	case 'X':
		want = map[int]vIv{}
	}
	missing := 0
	for k, x := range want {
		if !seen[k] {
			missing++
			if !(o.k == 'D' && x.lo == o.lo && x.hi == o.hi) {
				return fmt.Sprintf("item %v (inserted, not deleted) is no longer stored", x)
			}
		}
	}
	for _, g := range got {
		if x, ok := want[g.tag]; !ok || x != g {
			return fmt.Sprintf("stored item %v was never inserted or was already removed", g)
		}
	}
	if o.k == 'D' && removable > 0 && missing != 1 {
		return fmt.Sprintf("Delete[%d,%d] removed %d items, expected exactly one of the %d with those bounds", o.lo, o.hi, missing, removable)
	}
	if o.k == 'D' && removable == 0 && missing != 0 {
		return "Delete of absent bounds removed an item"
	}
	return ""
}

type vRun struct {
	w        *bufio.Writer
	cases    int
	steps    int
	propFail map[string]string
	propLen  map[string]int
	nontriv  map[string]bool
	hist     map[string]int
}

func vOpsString(ops []vOp) string {
	var sb strings.Builder
	for i, o := range ops {
		if i > 0 {
			sb.WriteByte(' ')
		}
		if o.k == 'X' {
			sb.WriteByte('X')
		} else {
			fmt.Fprintf(&sb, "%c:%d:%d", o.k, o.lo, o.hi)
		}
	}
	return sb.String()
}

func (v *vRun) fail(kind string, ops []vOp, upto int, detail string) {
	str := vOpsString(ops[:upto+1])
	old, ok := v.propFail[kind]
	// shortest history first; among equally long ones the one with the smallest coordinates
	if n := v.propLen[kind]; !ok || upto+1 < n || (upto+1 == n && len(str) < strings.Index(old, " ## ")) {
		v.propLen[kind] = upto + 1
		v.propFail[kind] = str + " ## " + detail
	}
}

// extreme coordinates: comparisons near the ends of the int range, differences that overflow
var vPool = []int{math.MinInt, math.MinInt + 1, -(1 << 62), -1, 0, 1, 1 << 62, math.MaxInt - 1, math.MaxInt}

// runCase: queries over all intervals a<=b within [qlo,qhi] after the last step (if queries).
func (v *vRun) runCase(ops []vOp, queries bool, qlo, qhi int) {
	if !queries {
		v.runCaseQ(ops, "", nil)
		return
	}
	var qs []vIv
	for a := qlo; a <= qhi; a++ {
		for b := a; b <= qhi; b++ {
			qs = append(qs, vIv{a, b, 0})
		}
	}
	v.runCaseQ(ops, "Q:"+strconv.Itoa(qlo)+":"+strconv.Itoa(qhi), qs)
}

// runCasePool: queries over every ordered pair of pool values (valid and inverted query intervals).
func (v *vRun) runCasePool(ops []vOp, pool []int) {
	var qs []vIv
	strs := make([]string, len(pool))
	for i, a := range pool {
		strs[i] = strconv.Itoa(a)
		for _, b := range pool {
			qs = append(qs, vIv{a, b, 0})
		}
	}
	v.runCaseQ(ops, "P:"+strings.Join(strs, ","), qs)
}

// runCaseQ executes ops, writes the case line, evaluates the property predicates; qtag names
// the query set qs for the model side ("" = no queries).
func (v *vRun) runCaseQ(ops []vOp, qtag string, qs []vIv) {
	queries := qtag != ""
	cur := 0
	defer func() {
		if r := recover(); r != nil {
			v.fail("panic", ops, cur, fmt.Sprintf("panic: %v", r))
			v.cases++
		}
	}()
	t := NewIntervalBST[vIv]()
	spec := []vIv{}
	live := map[int]vIv{} // tag -> item: inserted and not yet removed (as observed on the tree)
	var sb strings.Builder
	sb.WriteString(vOpsString(ops))
	sb.WriteString(";")
	rot := false
	for i, o := range ops {
		cur = i
		switch o.k {
		case 'I':
			t.Insert(vIv{o.lo, o.hi, i + 1})
			if o.lo <= o.hi {
				spec = append(spec, vIv{o.lo, o.hi, 0})
			}
		case 'D':
			t.Delete(vIv{o.lo, o.hi, -1})
			for j, s := range spec {
				if s.lo == o.lo && s.hi == o.hi {
					spec = append(spec[:j:j], spec[j+1:]...)
					break
				}
			}
		case 'X':
			t.Clear()
			spec = spec[:0]
		}
		v.steps++
		v.hist[string(o.k)]++
		if i > 0 {
			sb.WriteByte('/')
		}
		fmt.Fprintf(&sb, "%d,", t.Size())
		vShape(&sb, t.root)
		// ---- property predicates on the implementation's own state ----
		if t.Size() != len(spec) {
			v.fail("size", ops, i, fmt.Sprintf("Size()=%d multiset has %d", t.Size(), len(spec)))
		}
		if t.IsEmpty() != (len(spec) == 0) {
			v.fail("isempty", ops, i, "IsEmpty disagrees with the multiset")
		}
		got := t.GetAllIntervals()
		if !sort.SliceIsSorted(got, func(a, b int) bool { return got[a].lo < got[b].lo }) {
			v.fail("order", ops, i, fmt.Sprintf("contents not ascending by low: %v", got))
		}
		a := append([]vIv{}, got...)
		b := append([]vIv{}, spec...)
		lessIv := func(s []vIv) func(i, j int) bool {
			return func(i, j int) bool {
				if s[i].lo != s[j].lo {
					return s[i].lo < s[j].lo
				}
				return s[i].hi < s[j].hi
			}
		}
		sort.Slice(a, lessIv(a))
		sort.Slice(b, lessIv(b))
		same := len(a) == len(b)
		for k := 0; same && k < len(a); k++ {
			same = vSameKey(a[k], b[k])
		}
		if !same {
			v.fail("contents", ops, i, fmt.Sprintf("contents %v, multiset %v", got, spec))
		}
		// items (payload identity): judged step by step against what was stored before
		if why := vItemsStep(live, o, i+1, got); why != "" {
			v.fail("items", ops, i, fmt.Sprintf("%s; GetAllIntervals (lo hi tag) = %v", why, got))
		}
		live = map[int]vIv{}
		for _, g := range got {
			live[g.tag] = g
		}
		if _, _, ok, why := vCheckNode(t.root); !ok {
			v.fail(why, ops, i, "structural invariant broken")
		}
		if t.root != nil && t.root.height >= 3 {
			rot = true
		}
	}
	if queries {
		disjoint := true
		for i := range spec {
			for j := i + 1; j < len(spec); j++ {
				if vOverlap(spec[i], spec[j]) {
					disjoint = false
				}
			}
		}
		sb.WriteString(";" + qtag + ":")
		for _, q := range qs {
			r := t.Intersects(q)
			if r {
				sb.WriteByte('1')
			} else {
				sb.WriteByte('0')
			}
			if disjoint {
				bf := false
				for _, s := range spec {
					bf = bf || vOverlap(q, s)
				}
				if bf != r {
					v.fail("intersects", ops, len(ops)-1, fmt.Sprintf("Intersects[%d,%d]=%v brute force %v contents %v", q.lo, q.hi, r, bf, spec))
				}
			}
		}
		sb.WriteByte(':')
		stored := t.GetAllIntervals()
		for _, x := range stored {
			for _, q := range qs {
				r := t.CanUpdateInterval(x, q.lo, q.hi)
				if r {
					sb.WriteByte('1')
				} else {
					sb.WriteByte('0')
				}
				if disjoint {
					bf := true
					for _, s := range spec {
						if !vSameKey(s, x) && vOverlap(q, s) {
							bf = false
						}
					}
					if bf != r {
						v.fail("canupdate", ops, len(ops)-1, fmt.Sprintf("CanUpdateInterval(%v,%d,%d)=%v brute force %v contents %v", x, q.lo, q.hi, r, bf, spec))
					}
				}
			}
		}
		if disjoint {
			v.hist["disjoint-query-cases"]++
		}
	}
	sb.WriteByte('\n')
	v.w.WriteString(sb.String())
	v.cases++
	if rot {
		v.nontriv[vOpsString(ops)] = true
	}
}

func vEnumerate(v *vRun, alphabet []vOp, length int, cur []vOp) {
	if len(cur) == length {
		v.runCase(cur, length <= 3, 0, 3)
		return
	}
	for _, o := range alphabet {
		vEnumerate(v, alphabet, length, append(cur, o))
	}
}

func TestVerifC19(t *testing.T) {
	out := os.Getenv("VERIF_OUT")
	if out == "" {
		t.Skip("VERIF_OUT not set")
	}
	seed, _ := strconv.ParseUint(os.Getenv("VERIF_SEED"), 10, 64)
	thorough := os.Getenv("VERIF_TIER") == "thorough"
	f, err := os.Create(out)
	if err != nil {
		t.Fatal(err)
	}
	defer f.Close()
	v := &vRun{w: bufio.NewWriterSize(f, 1<<20), propFail: map[string]string{}, propLen: map[string]int{}, nontriv: map[string]bool{}, hist: map[string]int{}}
	defer v.w.Flush()

	if rp := os.Getenv("VERIF_REPLAY_OPS"); rp != "" {
		var ops []vOp
		for _, tok := range strings.Fields(rp) {
			if tok == "X" {
				ops = append(ops, vOp{k: 'X'})
				continue
			}
			p := strings.Split(tok, ":")
			lo, _ := strconv.Atoi(p[1])
			hi, _ := strconv.Atoi(p[2])
			ops = append(ops, vOp{p[0][0], lo, hi})
		}
		v.runCase(ops, true, -2, 8)
		v.runCasePool(ops, vPool)
	} else {
		// 1. exhaustive small scope: coordinates 0..2 (inverted intervals included), clear
		var alpha []vOp
		for lo := 0; lo <= 2; lo++ {
			for hi := 0; hi <= 2; hi++ {
				alpha = append(alpha, vOp{'I', lo, hi}, vOp{'D', lo, hi})
			}
		}
		alpha = append(alpha, vOp{k: 'X'})
		maxLen := 4
		if thorough {
			maxLen = 5
		}
		for l := 1; l <= maxLen; l++ {
			vEnumerate(v, alpha, l, nil)
		}
		v.hist["exhaustive-max-len"] = maxLen
		exh := v.cases
		// 2. random dense sequences (collisions, equal lows, duplicates), short and long
		r := &vRng{s: seed}
		nr := 6000
		if thorough {
			nr = 300000
		}
		for c := 0; c < nr; c++ {
			n := 3 + r.below(30)
			if c%20 == 0 {
				n = 50 + r.below(250)
			}
			span := 2 + r.below(9)
			ops := make([]vOp, 0, n)
			var live []vIv
			for i := 0; i < n; i++ {
				x := r.below(100)
				switch {
				case x < 55:
					lo := r.below(span)
					hi := lo + r.below(4) - (r.below(12) / 11)
					ops = append(ops, vOp{'I', lo, hi})
					if lo <= hi {
						live = append(live, vIv{lo, hi, 0})
					}
				case x < 85 && len(live) > 0:
					k := r.below(len(live))
					ops = append(ops, vOp{'D', live[k].lo, live[k].hi})
					live = append(live[:k], live[k+1:]...)
				case x < 97:
					ops = append(ops, vOp{'D', r.below(span), r.below(span + 3)})
				default:
					ops = append(ops, vOp{k: 'X'})
					live = live[:0]
				}
			}
			v.runCase(ops, c%4 == 0 && n <= 40, -1, span+1)
		}
		// 3. pairwise-disjoint streams (the intended use) with all queries; includes full-range ints
		nd := 3000
		if thorough {
			nd = 100000
		}
		for c := 0; c < nd; c++ {
			slots := 4 + r.below(10)
			n := 4 + r.below(28)
			used := make([]bool, slots)
			ops := make([]vOp, 0, n)
			scale, base := 1, 0
			if c%10 == 9 { // spread over the whole int range
				scale = (1 << 62) / slots
				base = -(1 << 61)
			}
			iv := func(s int) (int, int) {
				if scale == 1 {
					return 2 * s, 2*s + (s % 2)
				}
				return base + s*scale, base + s*scale + scale/2
			}
			for i := 0; i < n; i++ {
				s := r.below(slots)
				lo, hi := iv(s)
				if !used[s] && r.below(4) != 0 {
					ops = append(ops, vOp{'I', lo, hi})
					used[s] = true
				} else {
					ops = append(ops, vOp{'D', lo, hi})
					used[s] = false
				}
			}
			if scale == 1 {
				v.runCase(ops, true, -1, 2*slots+1)
			} else {
				v.runCase(ops, false, 0, 0)
			}
		}
		// 4. extreme bounds (ends of the int range, differences that overflow): exhaustive
		// one- and two-step histories over every (lo,hi) pair of the pool, valid and inverted,
		// then random short histories and pairwise-disjoint ones; all with pool queries
		var ext []vOp
		for _, lo := range vPool {
			for _, hi := range vPool {
				ext = append(ext, vOp{'I', lo, hi})
			}
		}
		before := v.cases
		for _, a := range ext {
			v.runCasePool([]vOp{a}, vPool)
			for _, b := range ext {
				v.runCasePool([]vOp{a, b}, vPool)
				v.runCasePool([]vOp{a, {'D', b.lo, b.hi}}, vPool)
			}
		}
		v.hist["extreme-exhaustive-cases"] = v.cases - before
		ne := 1500
		if thorough {
			ne = 60000
		}
		for c := 0; c < ne; c++ {
			n := 3 + r.below(12)
			ops := make([]vOp, 0, n)
			var live []vIv
			if c%3 == 0 {
				// pairwise disjoint: sorted distinct pool points paired up (or single points)
				perm := make([]int, len(vPool))
				for i := range perm {
					perm[i] = i
				}
				for i := len(perm) - 1; i > 0; i-- {
					j := r.below(i + 1)
					perm[i], perm[j] = perm[j], perm[i]
				}
				k := 2 + r.below(len(vPool)-1)
				idx := append([]int{}, perm[:k]...)
				sort.Ints(idx)
				var ivs []vIv
				for i := 0; i < len(idx); {
					if i+1 < len(idx) && r.below(3) != 0 {
						ivs = append(ivs, vIv{vPool[idx[i]], vPool[idx[i+1]], 0})
						i += 2
					} else {
						ivs = append(ivs, vIv{vPool[idx[i]], vPool[idx[i]], 0})
						i++
					}
				}
				for i := len(ivs) - 1; i > 0; i-- {
					j := r.below(i + 1)
					ivs[i], ivs[j] = ivs[j], ivs[i]
				}
				for _, x := range ivs {
					ops = append(ops, vOp{'I', x.lo, x.hi})
					live = append(live, x)
					switch r.below(6) {
					case 0:
						ops = append(ops, vOp{'I', x.hi, x.lo}) // inverted (or the same point again: skip)
						if x.lo == x.hi {
							ops = ops[:len(ops)-1]
						}
					case 1:
						k := r.below(len(live))
						ops = append(ops, vOp{'D', live[k].lo, live[k].hi})
						live = append(live[:k], live[k+1:]...)
					}
				}
			} else {
				for i := 0; i < n; i++ {
					x := r.below(100)
					switch {
					case x < 60:
						lo, hi := vPool[r.below(len(vPool))], vPool[r.below(len(vPool))]
						if lo > hi && r.below(3) != 0 {
							lo, hi = hi, lo
						}
						ops = append(ops, vOp{'I', lo, hi})
						if lo <= hi {
							live = append(live, vIv{lo, hi, 0})
						}
					case x < 85 && len(live) > 0:
						k := r.below(len(live))
						ops = append(ops, vOp{'D', live[k].lo, live[k].hi})
						live = append(live[:k], live[k+1:]...)
					case x < 97:
						ops = append(ops, vOp{'D', vPool[r.below(len(vPool))], vPool[r.below(len(vPool))]})
					default:
						ops = append(ops, vOp{k: 'X'})
						live = live[:0]
					}
				}
			}
			v.runCasePool(ops, vPool)
		}
		v.hist["extreme-random-cases"] = ne
		// 5. duplicate keys (payload identity): several items share their bounds, so a delete that
		// re-finds a node by key can hit another item.  Exhaustive over two keys, then random over
		// 1..3 keys with long runs of equal items and deletes at every shape.
		dupAlpha := []vOp{{'I', 0, 0}, {'I', 0, 1}, {'D', 0, 0}, {'D', 0, 1}}
		dupLen := 7
		if thorough {
			dupLen = 9
		}
		before = v.cases
		var dupEnum func(cur []vOp, n int)
		dupEnum = func(cur []vOp, n int) {
			if len(cur) == n {
				v.runCase(cur, false, 0, 0)
				return
			}
			for _, o := range dupAlpha {
				dupEnum(append(cur, o), n)
			}
		}
		for l := 5; l <= dupLen; l++ {
			dupEnum(nil, l)
		}
		v.hist["dupkey-exhaustive-cases"] = v.cases - before
		ndup := 3000
		if thorough {
			ndup = 150000
		}
		for c := 0; c < ndup; c++ {
			nk := 1 + r.below(3)
			n := 6 + r.below(40)
			ops := make([]vOp, 0, n)
			cnt := make([]int, nk)
			for i := 0; i < n; i++ {
				k := r.below(nk)
				if cnt[k] > 0 && r.below(100) < 40 {
					ops = append(ops, vOp{'D', k / 2, k/2 + k%2})
					cnt[k]--
				} else {
					ops = append(ops, vOp{'I', k / 2, k/2 + k%2})
					cnt[k]++
				}
			}
			v.runCase(ops, c%8 == 0, -1, 3)
		}
		v.hist["dupkey-random-cases"] = ndup
		v.hist["exhaustive-cases"] = exh
		v.hist["random-cases"] = nr
		v.hist["disjoint-cases"] = nd
	}
	v.w.Flush()
	// summary for the python side
	sf, _ := os.Create(out + ".summary")
	defer sf.Close()
	fmt.Fprintf(sf, "cases %d\nsteps %d\nnontrivial %d\n", v.cases, v.steps, len(v.nontriv))
	for k, n := range v.hist {
		fmt.Fprintf(sf, "hist %s %d\n", k, n)
	}
	for k, d := range v.propFail {
		fmt.Fprintf(sf, "PROPFAIL %s %s\n", k, d)
	}
}
