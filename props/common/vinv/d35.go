package vinv

import "github.com/squadracorsepolito/acmelib"

// SharedFollowerMoved is the value-based classifier of the open finding D35 (shared relative
// positions in multiplexer groups; see props/C01/NOTES.md, Properties/C07.v d35_refuted).
//
// It answers, on the live objects BEFORE the size change: does sig sit in a multiplexer and would a
// change of its size by amount (positive = grow, negative = shrink) move a follower that is held by
// two or more groups of that multiplexer (a fixed signal is held by all of them)?  Only then may an
// overlap / a negative position / a "negative shift amount" panic after the size change be filed
// under D35; any other overlap or panic is a new violation.
//
// Followers moved: on shrink every signal behind sig in a group holding sig; on growth the
// followers whose accumulated gap to sig is smaller than the amount (the ones the push reaches).
// For an enum edit (AddValue / UpdateIndex / SetMinSize) call it for every EnumSignal referencing
// the enum, with amount = new enum size - old enum size.
func SharedFollowerMoved(sig acmelib.Signal, amount int) bool {
	if sig == nil || amount == 0 {
		return false
	}
	mux := sig.ParentMultiplexerSignal()
	if mux == nil {
		return false
	}
	groups := mux.GetSignalGroups()
	held := func(id acmelib.EntityID) int {
		n := 0
		for _, grp := range groups {
			for _, s := range grp {
				if s.EntityID() == id {
					n++
					break
				}
			}
		}
		return n
	}
	for _, grp := range groups {
		idx := -1
		for i, s := range grp {
			if s.EntityID() == sig.EntityID() {
				idx = i
				break
			}
		}
		if idx < 0 {
			continue
		}
		prevEnd := sig.GetRelativeStartPos() + sig.GetSize()
		acc := amount
		for _, f := range grp[idx+1:] {
			if amount > 0 {
				gap := f.GetRelativeStartPos() - prevEnd
				if gap >= acc {
					break // the push stops here
				}
				acc -= gap
				prevEnd = f.GetRelativeStartPos() + f.GetSize()
			}
			if held(f.EntityID()) >= 2 {
				return true
			}
		}
	}
	return false
}
