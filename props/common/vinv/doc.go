// Package vinv holds Go-side evaluators of the model invariants (C01, C04, C05, C07) over the
// public API of acmelib. They are the decidable forms of the Coq predicates and are evaluated on
// the implementation's own objects by several checks (C01/C07, C04/C05, C10, C13).
// Each function returns the list of broken clauses (empty = invariant holds).
package vinv
