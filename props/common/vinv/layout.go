package vinv

import (
	"fmt"
	"math"

	"github.com/squadracorsepolito/acmelib"
)

// LayoutItem is one signal of a layout as seen through the public getters.
type LayoutItem struct {
	Sig   acmelib.Signal
	Start int // relative start position inside the layout
	Len   int
}

// CheckItems is the decidable form of the Coq predicate Acme.C01.Layout.wf (wfb): the items are
// listed in ascending start order, pairwise disjoint, inside [0, size) and at least one bit long.
// The returned strings name the broken clauses (empty = well-formed).
func CheckItems(where string, size int, items []LayoutItem) []string {
	var bad []string
	prevEnd := 0
	seen := map[acmelib.EntityID]bool{}
	for i, it := range items {
		name := fmt.Sprintf("%s[%d]", where, i)
		if it.Sig != nil {
			name = fmt.Sprintf("%s[%d:%s]", where, i, it.Sig.Name())
			if seen[it.Sig.EntityID()] {
				bad = append(bad, fmt.Sprintf("duplicate: %s listed twice", name))
			}
			seen[it.Sig.EntityID()] = true
		}
		if it.Len < 1 {
			bad = append(bad, fmt.Sprintf("len: %s has size %d < 1", name, it.Len))
		}
		if it.Start < 0 {
			bad = append(bad, fmt.Sprintf("bounds: %s starts at %d < 0", name, it.Start))
		}
		if it.Start+it.Len > size {
			bad = append(bad, fmt.Sprintf("bounds: %s ends at %d > size %d", name, it.Start+it.Len, size))
		}
		if i > 0 && it.Start < prevEnd {
			bad = append(bad, fmt.Sprintf("order/overlap: %s starts at %d before the end %d of its predecessor", name, it.Start, prevEnd))
		}
		prevEnd = it.Start + it.Len
	}
	return bad
}

// PayloadBits is 8*sizeByte as a mathematical integer, saturated to the int range (positions are ints,
// so every comparison with a position comes out as with the exact product).
func PayloadBits(sizeByte int) int {
	if sizeByte > math.MaxInt/8 {
		return math.MaxInt
	}
	if sizeByte < math.MinInt/8 {
		return math.MinInt
	}
	return sizeByte * 8
}

// CheckMessageLayout evaluates the C01 layout invariant on a message: the top-level signals are
// a well-formed layout of SizeByte()*8 bits, the start bit of a top-level signal equals its
// relative start position, and every multiplexer (at any depth) satisfies CheckMultiplexer.
func CheckMessageLayout(m *acmelib.Message) []string {
	if m == nil {
		return []string{"nil message"}
	}
	var bad []string
	sigs := m.Signals()
	items := make([]LayoutItem, 0, len(sigs))
	for _, s := range sigs {
		if s == nil {
			bad = append(bad, "nil signal in message layout")
			continue
		}
		items = append(items, LayoutItem{Sig: s, Start: s.GetRelativeStartPos(), Len: s.GetSize()})
		if s.ParentMultiplexerSignal() == nil && s.GetStartBit() != s.GetRelativeStartPos() {
			bad = append(bad, fmt.Sprintf("startbit: top-level %s has start bit %d but relative position %d", s.Name(), s.GetStartBit(), s.GetRelativeStartPos()))
		}
	}
	where := "message " + m.Name()
	bad = append(bad, CheckItems(where, PayloadBits(m.SizeByte()), items)...)
	visited := map[acmelib.EntityID]bool{}
	for _, s := range sigs {
		if s != nil && s.Kind() == acmelib.SignalKindMultiplexer {
			mux, err := s.ToMultiplexer()
			if err != nil {
				bad = append(bad, "kind: multiplexer kind but ToMultiplexer fails for "+s.Name())
				continue
			}
			bad = append(bad, checkMux(mux, visited, 0)...)
		}
	}
	return bad
}
