package vinv

// Containment links (C05): a child reports a parent exactly when that parent lists the child,
// and no entity is listed by two containers of the same kind. Because every back link is
// single-valued, "listed twice" shows up as a container listing a child whose back link points
// elsewhere; the *Up functions check the other direction (child reports a parent that does not
// list it). Public API only.

import (
	"fmt"

	"github.com/squadracorsepolito/acmelib"
)

func addf(out *[]string, clause, format string, a ...any) {
	*out = append(*out, clause+": "+fmt.Sprintf(format, a...))
}

// Guard runs one evaluator and turns a panic of a getter or lookup (the library panics when an
// index names an entity the container no longer holds) into a broken clause.
func Guard(clause string, f func() []string) (out []string) {
	defer func() {
		if r := recover(); r != nil {
			out = append(out, clause+": a read-only getter or lookup panicked: "+fmt.Sprint(r))
		}
	}()
	return f()
}

// CheckNetwork evaluates the network clauses and recurses into every bus (CheckBus).
func CheckNetwork(n *acmelib.Network) []string {
	var out []string
	if n == nil {
		return out
	}
	out = append(out, checkNetworkNames(n)...)
	for _, b := range n.Buses() {
		if b.ParentNetwork() != n {
			addf(&out, "c05-bus-network-link", "network %q lists bus %q whose ParentNetwork is %s", n.Name(), b.Name(), netName(b.ParentNetwork()))
		}
		out = append(out, CheckBus(b)...)
	}
	return out
}

func netName(n *acmelib.Network) string {
	if n == nil {
		return "nil"
	}
	return fmt.Sprintf("%q", n.Name())
}

func busName(b *acmelib.Bus) string {
	if b == nil {
		return "nil"
	}
	return fmt.Sprintf("%q", b.Name())
}

// CheckBusUp: a bus that reports a network is listed by it.
func CheckBusUp(b *acmelib.Bus) []string {
	var out []string
	if n := b.ParentNetwork(); n != nil {
		found := false
		for _, x := range n.Buses() {
			if x == b {
				found = true
			}
		}
		if !found {
			addf(&out, "c05-bus-network-link", "bus %q reports network %q which does not list it", b.Name(), n.Name())
		}
	}
	return out
}

// CheckBus evaluates the bus clauses: interface links, node-name / node-id / static CAN-ID
// uniqueness and lookups, and for every attached interface its node (CheckNode), its sent and
// received messages (CheckInterface).
func CheckBus(b *acmelib.Bus) []string {
	var out []string
	if b == nil {
		return out
	}
	out = append(out, checkBusNames(b)...)
	for _, ni := range b.NodeInterfaces() {
		if ni.ParentBus() != b {
			addf(&out, "c05-iface-bus-link", "bus %q lists interface %d of node %q whose ParentBus is %s", b.Name(), ni.Number(), ni.Node().Name(), busName(ni.ParentBus()))
		}
		listed := false
		for _, x := range ni.Node().Interfaces() {
			if x == ni {
				listed = true
			}
		}
		if !listed {
			addf(&out, "c05-iface-node-link", "bus %q lists an interface (number %d) of node %q which that node no longer lists", b.Name(), ni.Number(), ni.Node().Name())
		}
		out = append(out, CheckNode(ni.Node())...)
		out = append(out, CheckInterface(ni)...)
	}
	return out
}

// CheckInterfaceUp: an interface that reports a bus is listed by it (under its node).
func CheckInterfaceUp(ni *acmelib.NodeInterface) []string {
	var out []string
	if b := ni.ParentBus(); b != nil {
		found := false
		for _, x := range b.NodeInterfaces() {
			if x == ni {
				found = true
			}
		}
		if !found {
			addf(&out, "c05-iface-bus-link", "interface %d of node %q reports bus %q which does not list it", ni.Number(), ni.Node().Name(), b.Name())
		}
	}
	return out
}

// CheckNode: the interfaces of a node are numbered 0..n-1 in order, GetInterface agrees, and
// every interface reports the node.
func CheckNode(n *acmelib.Node) []string {
	var out []string
	if n == nil {
		return out
	}
	ints := n.Interfaces()
	for i, ni := range ints {
		if ni == nil {
			addf(&out, "c05-node-interfaces", "node %q: Interfaces()[%d] is nil", n.Name(), i)
			continue
		}
		if ni.Number() != i {
			addf(&out, "c05-node-interfaces", "node %q: Interfaces()[%d].Number() = %d", n.Name(), i, ni.Number())
		}
		if ni.Node() != n {
			addf(&out, "c05-node-interfaces", "node %q: Interfaces()[%d].Node() is another node", n.Name(), i)
		}
		got, err := n.GetInterface(i)
		if err != nil || got != ni {
			addf(&out, "c05-node-interfaces", "node %q: GetInterface(%d) = (%v, %v), not Interfaces()[%d]", n.Name(), i, got != nil, err, i)
		}
	}
	if _, err := n.GetInterface(len(ints)); err == nil {
		addf(&out, "c05-node-interfaces", "node %q: GetInterface(%d) succeeds with %d interfaces", n.Name(), len(ints), len(ints))
	}
	return out
}

// CheckInterface: sender and receiver links of one interface plus its name / id / static CAN-ID
// registries (checkInterfaceNames) and the signal registry of every sent message.
func CheckInterface(ni *acmelib.NodeInterface) []string {
	var out []string
	if ni == nil {
		return out
	}
	out = append(out, checkInterfaceNames(ni)...)
	for _, m := range ni.SentMessages() {
		if m.SenderNodeInterface() != ni {
			addf(&out, "c05-message-sender-link", "interface %d of node %q lists message %q whose sender is %s", ni.Number(), ni.Node().Name(), m.Name(), ifaceName(m.SenderNodeInterface()))
		}
		out = append(out, CheckReceivers(m)...)
		out = append(out, CheckMessageRegistry(m)...)
	}
	for _, m := range ni.ReceivedMessages() {
		found := false
		for _, r := range m.Receivers() {
			if r == ni {
				found = true
			}
		}
		if !found {
			addf(&out, "c05-message-receiver-link", "interface %d of node %q lists received message %q which does not list it as receiver", ni.Number(), ni.Node().Name(), m.Name())
		}
	}
	return out
}

func ifaceName(ni *acmelib.NodeInterface) string {
	if ni == nil {
		return "nil"
	}
	return fmt.Sprintf("%q/%d", ni.Node().Name(), ni.Number())
}

// CheckMessageUp: a message that reports a sender is listed by it.
func CheckMessageUp(m *acmelib.Message) []string {
	var out []string
	if ni := m.SenderNodeInterface(); ni != nil {
		found := false
		for _, x := range ni.SentMessages() {
			if x == m {
				found = true
			}
		}
		if !found {
			addf(&out, "c05-message-sender-link", "message %q reports sender %s which does not list it", m.Name(), ifaceName(ni))
		}
	}
	return out
}

// CheckReceivers: every receiver of the message lists it as received.
func CheckReceivers(m *acmelib.Message) []string {
	var out []string
	for _, r := range m.Receivers() {
		found := false
		for _, x := range r.ReceivedMessages() {
			if x == m {
				found = true
			}
		}
		if !found {
			addf(&out, "c05-message-receiver-link", "message %q lists receiver %s which does not list it as received", m.Name(), ifaceName(r))
		}
	}
	return out
}

// CheckEnum: value links, name / index uniqueness and MaxIndex.
func CheckEnum(e *acmelib.SignalEnum) []string {
	var out []string
	if e == nil {
		return out
	}
	out = append(out, checkEnumNames(e)...)
	for _, v := range e.Values() {
		if v.ParentEnum() != e {
			pn := "nil"
			if v.ParentEnum() != nil {
				pn = fmt.Sprintf("%q", v.ParentEnum().Name())
			}
			addf(&out, "c05-value-enum-link", "enum %q lists value %q whose ParentEnum is %s", e.Name(), v.Name(), pn)
		}
		if got, err := e.GetValue(v.EntityID()); err != nil || got != v {
			addf(&out, "c05-value-enum-link", "enum %q: GetValue(id of %q) fails", e.Name(), v.Name())
		}
	}
	return out
}

// CheckEnumValueUp: a value that reports an enum is listed by it.
func CheckEnumValueUp(v *acmelib.SignalEnumValue) []string {
	var out []string
	if e := v.ParentEnum(); e != nil {
		found := false
		for _, x := range e.Values() {
			if x == v {
				found = true
			}
		}
		if !found {
			addf(&out, "c05-value-enum-link", "value %q reports enum %q which does not list it", v.Name(), e.Name())
		}
	}
	return out
}
