package vinv

import (
	"fmt"

	"github.com/squadracorsepolito/acmelib"
)

// SelectorWidth is the number of bits needed to select one of count groups, as documented for
// MultiplexerSignal.GetGroupCountSize (bit length of count-1, and 1 for a single group).
func SelectorWidth(count int) int {
	v := count - 1
	if v <= 0 {
		return 1
	}
	n := 0
	for v > 0 {
		n++
		v >>= 1
	}
	return n
}

const maxMuxDepth = 64

// CheckMultiplexer evaluates the C07 invariant on a multiplexer signal, recursively:
//   - GetSize = GroupSize + GetGroupCountSize and GetGroupCountSize is the selector width;
//   - GetSignalGroups has GroupCount entries and each is a well-formed layout of GroupSize bits
//     (relative positions: ascending, disjoint, in bounds, sizes >= 1);
//   - every multiplexed signal has this multiplexer as parent and its absolute start bit is the
//     multiplexer's start bit + selector width + its relative position;
//   - a signal occupies one relative position in all the groups that hold it (shared position);
//   - nested multiplexers satisfy the same clauses.
//
// The returned strings name the broken clauses (empty = invariant holds).
func CheckMultiplexer(mux *acmelib.MultiplexerSignal) []string {
	return checkMux(mux, map[acmelib.EntityID]bool{}, 0)
}

func checkMux(mux *acmelib.MultiplexerSignal, visited map[acmelib.EntityID]bool, depth int) []string {
	if mux == nil {
		return []string{"nil multiplexer"}
	}
	if visited[mux.EntityID()] {
		return nil
	}
	visited[mux.EntityID()] = true
	where := "mux " + mux.Name()
	if depth > maxMuxDepth {
		return []string{where + ": nesting deeper than " + fmt.Sprint(maxMuxDepth) + " (cycle?)"}
	}
	var bad []string
	count, gsize := mux.GroupCount(), mux.GroupSize()
	if count < 1 || gsize < 1 {
		bad = append(bad, fmt.Sprintf("shape: %s has group count %d, group size %d", where, count, gsize))
	}
	if mux.GetGroupCountSize() != SelectorWidth(count) {
		bad = append(bad, fmt.Sprintf("selector: %s GetGroupCountSize %d != width %d of %d groups", where, mux.GetGroupCountSize(), SelectorWidth(count), count))
	}
	if mux.GetSize() != gsize+mux.GetGroupCountSize() {
		bad = append(bad, fmt.Sprintf("size: %s GetSize %d != group size %d + selector %d", where, mux.GetSize(), gsize, mux.GetGroupCountSize()))
	}
	groups := mux.GetSignalGroups()
	if len(groups) != count {
		bad = append(bad, fmt.Sprintf("groups: %s has %d groups, GroupCount %d", where, len(groups), count))
	}
	base := mux.GetStartBit() + mux.GetGroupCountSize()
	var nested []*acmelib.MultiplexerSignal
	seenSig := map[acmelib.EntityID]bool{}
	var prevGroup []acmelib.Signal
	prevOK := false
	for g, grp := range groups {
		// consecutive groups with identical contents (e.g. 4096 groups holding the same fixed
		// signals) have identical verdicts: positions are stored in the signals
		if prevOK && sameSignals(prevGroup, grp) {
			continue
		}
		prevGroup, prevOK = grp, true
		items := make([]LayoutItem, 0, len(grp))
		for _, s := range grp {
			if s == nil {
				bad = append(bad, fmt.Sprintf("nil signal in %s group %d", where, g))
				continue
			}
			items = append(items, LayoutItem{Sig: s, Start: s.GetRelativeStartPos(), Len: s.GetSize()})
			if seenSig[s.EntityID()] {
				continue
			}
			seenSig[s.EntityID()] = true
			if s.ParentMultiplexerSignal() != mux {
				bad = append(bad, fmt.Sprintf("parent: %s in %s group %d has another parent multiplexer", s.Name(), where, g))
			} else if s.GetStartBit() != base+s.GetRelativeStartPos() {
				bad = append(bad, fmt.Sprintf("startbit: %s in %s has start bit %d != parent start %d + selector %d + relative %d",
					s.Name(), where, s.GetStartBit(), mux.GetStartBit(), mux.GetGroupCountSize(), s.GetRelativeStartPos()))
			}
			if s.Kind() == acmelib.SignalKindMultiplexer {
				if nm, err := s.ToMultiplexer(); err == nil {
					nested = append(nested, nm)
				} else {
					bad = append(bad, "kind: multiplexer kind but ToMultiplexer fails for "+s.Name())
				}
			}
		}
		bad = append(bad, CheckItems(fmt.Sprintf("%s group %d", where, g), gsize, items)...)
	}
	for _, nm := range nested {
		bad = append(bad, checkMux(nm, visited, depth+1)...)
	}
	return bad
}

func sameSignals(a, b []acmelib.Signal) bool {
	if len(a) != len(b) {
		return false
	}
	for i := range a {
		if a[i] != b[i] {
			return false
		}
	}
	return true
}
