package vinv

// Uniqueness of names and identifiers and agreement of the lookups with the contents (C04).
// Public API only: the contents are what the listing getters return, the lookups are the
// Get…ByName functions.

import (
	"errors"

	"github.com/squadracorsepolito/acmelib"
)

func checkNetworkNames(n *acmelib.Network) []string {
	var out []string
	seen := map[string]*acmelib.Bus{}
	for _, b := range n.Buses() {
		if o, ok := seen[b.Name()]; ok && o != b {
			addf(&out, "c04-network-bus-name-unique", "network %q holds two buses named %q", n.Name(), b.Name())
		}
		seen[b.Name()] = b
	}
	return out
}

func checkBusNames(b *acmelib.Bus) []string {
	var out []string
	names := map[string]*acmelib.NodeInterface{}
	ids := map[acmelib.NodeID]*acmelib.NodeInterface{}
	static := map[acmelib.CANID]*acmelib.Message{}
	for _, ni := range b.NodeInterfaces() {
		nd := ni.Node()
		if o, ok := names[nd.Name()]; ok && o != ni {
			addf(&out, "c04-bus-node-name-unique", "bus %q holds two nodes named %q", b.Name(), nd.Name())
		}
		names[nd.Name()] = ni
		if o, ok := ids[nd.ID()]; ok && o != ni {
			addf(&out, "c04-bus-node-id-unique", "bus %q holds two nodes with id %d", b.Name(), nd.ID())
		}
		ids[nd.ID()] = ni
		got, err := b.GetNodeInterfaceByNodeName(nd.Name())
		if err != nil || got != ni {
			addf(&out, "c04-bus-node-lookup", "bus %q: GetNodeInterfaceByNodeName(%q) does not return the interface of that node (err=%v)", b.Name(), nd.Name(), err)
		}
		for _, m := range ni.SentMessages() {
			if !m.HasStaticCANID() {
				continue
			}
			if o, ok := static[m.GetCANID()]; ok && o != m {
				addf(&out, "c04-bus-static-canid-unique", "bus %q carries two messages (%q, %q) with static CAN-ID %d", b.Name(), o.Name(), m.Name(), m.GetCANID())
			}
			static[m.GetCANID()] = m
		}
	}
	return out
}

// LookupAbsentNodeName: a name carried by no attached node must not be found.
func LookupAbsentNodeName(b *acmelib.Bus, name string) []string {
	var out []string
	for _, ni := range b.NodeInterfaces() {
		if ni.Node().Name() == name {
			return out
		}
	}
	if got, err := b.GetNodeInterfaceByNodeName(name); err == nil || !errors.Is(err, acmelib.ErrNotFound) {
		addf(&out, "c04-bus-node-lookup", "bus %q: GetNodeInterfaceByNodeName(%q) = (%v, %v) although no attached node carries that name", b.Name(), name, got != nil, err)
	}
	return out
}

func checkInterfaceNames(ni *acmelib.NodeInterface) []string {
	var out []string
	names := map[string]*acmelib.Message{}
	ids := map[acmelib.MessageID]*acmelib.Message{}
	static := map[acmelib.CANID]*acmelib.Message{}
	for _, m := range ni.SentMessages() {
		if o, ok := names[m.Name()]; ok && o != m {
			addf(&out, "c04-iface-message-name-unique", "interface %s sends two messages named %q", ifaceName(ni), m.Name())
		}
		names[m.Name()] = m
		if m.HasStaticCANID() {
			if o, ok := static[m.GetCANID()]; ok && o != m {
				addf(&out, "c04-iface-static-canid-unique", "interface %s sends two messages (%q, %q) with static CAN-ID %d", ifaceName(ni), o.Name(), m.Name(), m.GetCANID())
			}
			static[m.GetCANID()] = m
		} else {
			if o, ok := ids[m.ID()]; ok && o != m {
				addf(&out, "c04-iface-message-id-unique", "interface %s sends two messages (%q, %q) with generated CAN-ID and message id %d", ifaceName(ni), o.Name(), m.Name(), m.ID())
			}
			ids[m.ID()] = m
		}
		got, err := ni.GetSentMessageByName(m.Name())
		if err != nil || got != m {
			addf(&out, "c04-iface-message-lookup", "interface %s: GetSentMessageByName(%q) does not return the message carrying that name (err=%v)", ifaceName(ni), m.Name(), err)
		}
	}
	return out
}

// LookupAbsentMessageName: a name carried by no sent message must not be found.
func LookupAbsentMessageName(ni *acmelib.NodeInterface, name string) []string {
	var out []string
	for _, m := range ni.SentMessages() {
		if m.Name() == name {
			return out
		}
	}
	if got, err := ni.GetSentMessageByName(name); err == nil || !errors.Is(err, acmelib.ErrNotFound) {
		addf(&out, "c04-iface-message-lookup", "interface %s: GetSentMessageByName(%q) = (%v, %v) although no sent message carries that name", ifaceName(ni), name, got != nil, err)
	}
	return out
}

func checkEnumNames(e *acmelib.SignalEnum) []string {
	var out []string
	names := map[string]*acmelib.SignalEnumValue{}
	idx := map[int]*acmelib.SignalEnumValue{}
	max := 0
	for _, v := range e.Values() {
		if o, ok := names[v.Name()]; ok && o != v {
			addf(&out, "c04-enum-value-name-unique", "enum %q holds two values named %q", e.Name(), v.Name())
		}
		names[v.Name()] = v
		if o, ok := idx[v.Index()]; ok && o != v {
			addf(&out, "c04-enum-value-index-unique", "enum %q holds two values with index %d", e.Name(), v.Index())
		}
		idx[v.Index()] = v
		if v.Index() > max {
			max = v.Index()
		}
	}
	if e.MaxIndex() != max {
		addf(&out, "c04-enum-max-index", "enum %q: MaxIndex() = %d, highest index among the values = %d", e.Name(), e.MaxIndex(), max)
	}
	return out
}
