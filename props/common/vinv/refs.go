package vinv

// The signal registry of a message (C04 I1, C05 signal links) and the reference sets of shared
// definitions (C05, I8). Public API only.

import (
	"sort"

	"github.com/squadracorsepolito/acmelib"
)

// muxChildren: the signals held by the groups of a multiplexer
func muxChildren(m *acmelib.MultiplexerSignal) []acmelib.Signal {
	seen := map[acmelib.EntityID]bool{}
	var out []acmelib.Signal
	for _, g := range m.GetSignalGroups() {
		for _, s := range g {
			if s != nil && !seen[s.EntityID()] {
				seen[s.EntityID()] = true
				out = append(out, s)
			}
		}
	}
	return out
}

type holder struct {
	sig acmelib.Signal
	mux *acmelib.MultiplexerSignal // nil for the signals of the message payload
}

// reachable: the signals reachable from the payload of the message through multiplexer groups
func reachable(m *acmelib.Message) []holder {
	var out []holder
	seen := map[acmelib.EntityID]bool{}
	var walk func(s acmelib.Signal, mux *acmelib.MultiplexerSignal, depth int)
	walk = func(s acmelib.Signal, mux *acmelib.MultiplexerSignal, depth int) {
		if s == nil || depth > 16 {
			return
		}
		out = append(out, holder{s, mux})
		if seen[s.EntityID()] {
			return
		}
		seen[s.EntityID()] = true
		if s.Kind() == acmelib.SignalKindMultiplexer {
			if mx, err := s.ToMultiplexer(); err == nil {
				for _, c := range muxChildren(mx) {
					walk(c, mx, depth+1)
				}
			}
		}
	}
	for _, s := range m.Signals() {
		walk(s, nil, 0)
	}
	return out
}

// CheckMessageRegistry: signals of a message at every multiplexing depth have unique names, the
// lookups (GetSignalByName, GetSignal, SignalNames) agree with the contents and the parent links
// are converse and exclusive.
func CheckMessageRegistry(m *acmelib.Message) []string {
	var out []string
	if m == nil {
		return out
	}
	names := map[string]acmelib.EntityID{}
	holders := map[acmelib.EntityID]*acmelib.MultiplexerSignal{}
	counted := map[acmelib.EntityID]bool{}
	for _, h := range reachable(m) {
		s := h.sig
		id := s.EntityID()
		if prev, ok := holders[id]; ok && prev != h.mux {
			addf(&out, "c05-signal-exclusive", "message %q: signal %q is held by two containers of its payload tree", m.Name(), s.Name())
		}
		holders[id] = h.mux
		if counted[id] {
			continue
		}
		counted[id] = true
		if o, ok := names[s.Name()]; ok && o != id {
			addf(&out, "c04-message-signal-name-unique", "message %q holds two signals named %q", m.Name(), s.Name())
		}
		names[s.Name()] = id
		if s.ParentMessage() != m {
			pn := "nil"
			if s.ParentMessage() != nil {
				pn = s.ParentMessage().Name()
			}
			addf(&out, "c05-signal-message-link", "message %q reaches signal %q whose ParentMessage is %s", m.Name(), s.Name(), pn)
		}
		if s.ParentMultiplexerSignal() != h.mux {
			addf(&out, "c05-signal-mux-link", "message %q: signal %q is held by %s but reports %s as its multiplexer", m.Name(), s.Name(), muxName(h.mux), muxName(s.ParentMultiplexerSignal()))
		}
		if got, err := m.GetSignal(id); err != nil || got.EntityID() != id {
			addf(&out, "c04-message-signal-lookup", "message %q: GetSignal(id of %q) fails (%v)", m.Name(), s.Name(), err)
		}
	}
	for name, id := range names {
		got, err := m.GetSignalByName(name)
		if err != nil || got.EntityID() != id {
			addf(&out, "c04-message-signal-lookup", "message %q: GetSignalByName(%q) does not return the signal carrying that name (err=%v)", m.Name(), name, err)
		}
	}
	listed := m.SignalNames()
	sort.Strings(listed)
	var want []string
	for n := range names {
		want = append(want, n)
	}
	sort.Strings(want)
	if len(listed) != len(want) {
		addf(&out, "c04-message-signal-names", "message %q: SignalNames() = %v, names of the signals of the payload = %v", m.Name(), listed, want)
	} else {
		for i := range want {
			if want[i] != listed[i] {
				addf(&out, "c04-message-signal-names", "message %q: SignalNames() = %v, names of the signals of the payload = %v", m.Name(), listed, want)
				break
			}
		}
	}
	return out
}

func muxName(m *acmelib.MultiplexerSignal) string {
	if m == nil {
		return "nil"
	}
	return "\"" + m.Name() + "\""
}

// CheckSignalUp: a signal that reports a message / a multiplexer is reachable from it.
func CheckSignalUp(s acmelib.Signal) []string {
	var out []string
	if s == nil {
		return out
	}
	if mx := s.ParentMultiplexerSignal(); mx != nil {
		found := false
		for _, c := range muxChildren(mx) {
			if c.EntityID() == s.EntityID() {
				found = true
			}
		}
		if !found {
			addf(&out, "c05-signal-mux-link", "signal %q reports multiplexer %q which holds it in no group", s.Name(), mx.Name())
		}
		if mx.ParentMessage() != s.ParentMessage() {
			addf(&out, "c05-signal-message-link", "signal %q and its multiplexer %q report different messages", s.Name(), mx.Name())
		}
	}
	if m := s.ParentMessage(); m != nil {
		found := false
		for _, h := range reachable(m) {
			if h.sig.EntityID() == s.EntityID() {
				found = true
			}
		}
		if !found {
			addf(&out, "c05-signal-message-link", "signal %q reports message %q from whose payload it is not reachable", s.Name(), m.Name())
		}
	}
	return out
}

// CheckMultiplexerLinks: every signal held by a group reports the multiplexer; names are unique
// among the signals it holds directly.
func CheckMultiplexerLinks(mx *acmelib.MultiplexerSignal) []string {
	var out []string
	if mx == nil {
		return out
	}
	names := map[string]acmelib.EntityID{}
	for _, c := range muxChildren(mx) {
		if c.ParentMultiplexerSignal() != mx {
			addf(&out, "c05-signal-mux-link", "multiplexer %q holds signal %q which reports %s", mx.Name(), c.Name(), muxName(c.ParentMultiplexerSignal()))
		}
		if c.ParentMessage() != mx.ParentMessage() {
			addf(&out, "c05-signal-message-link", "multiplexer %q and the signal %q it holds report different messages", mx.Name(), c.Name())
		}
		if o, ok := names[c.Name()]; ok && o != c.EntityID() {
			addf(&out, "c04-mux-signal-name-unique", "multiplexer %q holds two signals named %q", mx.Name(), c.Name())
		}
		names[c.Name()] = c.EntityID()
	}
	return out
}

// attributable is the part of Bus / Node / Message / Signal used here
type attributable interface {
	AttributeAssignments() []*acmelib.AttributeAssignment
	GetAttributeAssignment(acmelib.EntityID) (*acmelib.AttributeAssignment, error)
}

// CheckAttributeAssignments: every assignment held by the entity is listed by its attribute as a
// reference, names the entity, and is found by the lookup.
func CheckAttributeAssignments(e attributable) []string {
	var out []string
	for _, a := range e.AttributeAssignments() {
		at := a.Attribute()
		found := false
		for _, r := range at.References() {
			if r == a {
				found = true
			}
		}
		if !found {
			addf(&out, "c05-refs-attribute", "an entity holds an assignment of attribute %q which does not list it as reference", at.Name())
		}
		if got, err := e.GetAttributeAssignment(at.EntityID()); err != nil || got != a {
			addf(&out, "c05-refs-attribute", "GetAttributeAssignment(id of %q) does not return the assignment the entity holds", at.Name())
		}
	}
	return out
}

// CheckTypeRefs / CheckUnitRefs / CheckEnumRefs / CheckBuilderRefs: a shared definition lists as
// references only entities that use it (the other direction is checked from the user's side).
func CheckTypeRefs(t *acmelib.SignalType) []string {
	var out []string
	for _, r := range t.References() {
		if r.Type() != t {
			addf(&out, "c05-refs-type", "type %q lists signal %q which uses another type", t.Name(), r.Name())
		}
	}
	return out
}

func CheckEnumRefs(e *acmelib.SignalEnum) []string {
	var out []string
	for _, r := range e.References() {
		if r.Enum() != e {
			addf(&out, "c05-refs-enum", "enum %q lists signal %q which uses another enum", e.Name(), r.Name())
		}
	}
	return out
}

// CheckBuilderRefs: a CAN-ID builder (custom, or a default one obtained from Bus.CANIDBuilder and
// held by the caller) lists as references exactly buses that currently use it.
func CheckBuilderRefs(cb *acmelib.CANIDBuilder, what string) []string {
	var out []string
	if cb == nil {
		return out
	}
	for _, r := range cb.References() {
		if r.CANIDBuilder() != cb {
			addf(&out, "c05-refs-builder", "%s lists bus %q which uses another builder", what, r.Name())
		}
	}
	return out
}
