package vinv

// Reference sets of shared definitions (C05, I8) and the signal registry of a message (C04 I1,
// C05 signal links). Filled in by the C04/C05 stream (layers 2 and 3).

import "github.com/squadracorsepolito/acmelib"

// CheckMessageRegistry: signals of a message at every multiplexing depth have unique names, the
// lookups agree with the contents and the parent links are converse (layer 2).
func CheckMessageRegistry(m *acmelib.Message) []string {
	var out []string
	if m == nil {
		return out
	}
	return out
}
