#!/bin/sh
# Offline build of the framework from files on disk: Coq development (full .vo build),
# extracted-model drivers, warm Go build cache for the harnesses.
set -e
cd "$(dirname "$0")"
export GOFLAGS=-mod=mod GOPROXY=off
unset GOTOOLCHAIN GOSUMDB || true
python3 - <<'PY'
import sys, os, glob
sys.path.insert(0, "lib")
import vlib
ok, log = vlib.coq_build(timeout=6000)
print(log[-3000:])
if not ok:
    # not fatal for setup: every check rebuilds the closure of its own property file and reports
    # an unchecked theorem itself; one broken file must not keep the other checks from running
    print("WARNING: coq build incomplete (see above)")
bad = vlib.forbidden_scan()
if bad:
    print("WARNING: forbidden constructs: %r" % bad)
# per-property setup hooks (build drivers etc.)
import importlib.util
for p in sorted(glob.glob("props/*/setup.py")):
    spec = importlib.util.spec_from_file_location("s", p); m = importlib.util.module_from_spec(spec)
    try:
        spec.loader.exec_module(m); m.setup()
    except Exception as ex:
        print("WARNING: setup of %s failed: %s" % (p, ex))
PY
(cd /repo && go build ./... && go vet ./internal/ >/dev/null 2>&1 || true)
echo setup-ok
